"""Truncated Taylor jets in (t,x,y,z) over a coefficient field.

Scalars used by engine E1/E3: a jet J(o, c) is a polynomial in NV=4
indeterminates truncated at total degree o (the "order"); c maps multi-indices
to *Taylor* coefficients (not derivatives).  Arithmetic is exact in the
quotient ring K[t,x,y,z]/(deg > o); K is F_p (p = 2^61-1, `Field('p')`) for
polynomial-identity testing or Q (`Field('q')`, Fractions) for exact rational
witnesses.  Differentiation lowers the order by one.  Constants have order INF.

What is *not* modelled: IEEE rounding (float literals are read back as the
rational they round, see `Field.num`), ordering of scalars (there is no `<`).
"""
from fractions import Fraction
import itertools
import numpy as _np

P61 = (1 << 61) - 1
NV = 4
INF = 99
ZERO_MI = (0,) * NV


class Undecided(Exception):
    """The code left the subset the jet algebra can decide."""


class OrderExhausted(Undecided):
    """a derivative of an order-0 jet was requested: the scenario's jets are too short."""


class NeedResample(Exception):
    """The random point is unsuitable (non-residue under sqrt etc.)."""


class Field:
    def __init__(self, kind='p', p=P61):
        self.kind = kind
        self.p = p if kind == 'p' else None
        self.sqrt_reg = []   # list of (square jet, root jet)
        self.log_reg = []    # list of (psi jet, phi jet)
        self.root12_reg = []

    # -- numbers -----------------------------------------------------------
    def num(self, v):
        """Python/numpy number -> field element (float literal -> rational)."""
        if isinstance(v, bool):
            v = int(v)
        if self.kind == 'f':
            return float(v)
        if isinstance(v, (int, _np.integer)):
            return int(v) % self.p if self.p else Fraction(int(v))
        if isinstance(v, Fraction):
            if self.p:
                return v.numerator % self.p * pow(v.denominator % self.p, self.p - 2, self.p) % self.p
            return v
        if isinstance(v, (float, _np.floating)):
            fv = float(v)
            if fv != fv or fv in (float('inf'), float('-inf')):
                raise Undecided('non-finite float literal')
            f = Fraction(fv).limit_denominator(10 ** 6)
            if abs(float(f) - fv) > 4e-16 * max(1.0, abs(fv)):
                f = Fraction(fv)      # not a short rational: keep the exact binary value
            return self.num(f)
        raise TypeError(f'cannot embed {type(v)} in field')

    def inv(self, a):
        if self.p:
            if a % self.p == 0:
                raise ZeroDivisionError
            return pow(a, self.p - 2, self.p)
        return 1 / a

    def red(self, a):
        return a % self.p if self.p else a

    def is_zero(self, a):
        return (a % self.p == 0) if self.p else (a == 0)

    def rand_coeff(self, m, rng):
        if self.p:
            return rng.randrange(1, self.p)
        if self.kind == 'f':
            return rng.uniform(0.3, 0.9) if not any(m) else rng.uniform(-0.5, 0.5)
        return Fraction(rng.randint(-9, 9) or 1, rng.randint(1, 4))

    def sqrt_elem(self, a):
        """canonical square root of a field element (None if none)."""
        if self.p:
            a %= self.p
            if a == 0:
                return 0
            r = pow(a, (self.p + 1) // 4, self.p)   # p = 3 mod 4
            if r * r % self.p != a:
                return None
            return min(r, self.p - r)
        if a < 0:
            return None
        if self.kind == 'f':
            import math
            return math.sqrt(a)
        n, d = a.numerator, a.denominator
        import math
        rn, rd = math.isqrt(n), math.isqrt(d)
        if rn * rn == n and rd * rd == d:
            return Fraction(rn, rd)
        return None


def _mi_add(a, b):
    return tuple(x + y for x, y in zip(a, b))


class Poison:
    """Result of dividing by a jet whose value is 0 (np.where may discard it)."""

    def _p(self, *a, **k):
        return self
    __add__ = __radd__ = __sub__ = __rsub__ = __mul__ = __rmul__ = _p
    __truediv__ = __rtruediv__ = __neg__ = __pow__ = __abs__ = _p
    sqrt = log = exp = conjugate = _p

    def __ne__(self, o):
        raise Undecided('comparison with value of x/0')
    __eq__ = __ne__
    __hash__ = None

    def __repr__(self):
        return 'POISON'


POISON = Poison()


class J:
    __slots__ = ('F', 'o', 'c')

    def __init__(self, F, o, c):
        self.F = F
        self.o = o
        self.c = c

    # -- construction -------------------------------------------------------
    @staticmethod
    def const(F, v):
        return J(F, INF, {ZERO_MI: F.num(v)})

    @staticmethod
    def rand(F, o, rng, nvars=(0, 1, 2, 3)):
        """random jet of order o depending on the given variables only."""
        c = {}
        for m in multi_indices(o):
            if any(m[i] for i in range(NV) if i not in nvars):
                continue
            c[m] = F.rand_coeff(m, rng)
        return J(F, o, c)

    def _co(self, x):
        if isinstance(x, J):
            return x
        if isinstance(x, (int, float, Fraction, _np.integer, _np.floating, bool)):
            return J(self.F, INF, {ZERO_MI: self.F.num(x)})
        return None

    # -- ring operations ----------------------------------------------------
    def __add__(self, x):
        if isinstance(x, Poison):
            return x
        x = self._co(x)
        if x is None:
            return NotImplemented
        o = min(self.o, x.o)
        red = self.F.red
        c = {m: v for m, v in self.c.items() if sum(m) <= o}
        for m, v in x.c.items():
            if sum(m) <= o:
                c[m] = red(c.get(m, 0) + v)
        return J(self.F, o, c)
    __radd__ = __add__

    def __neg__(self):
        red = self.F.red
        return J(self.F, self.o, {m: red(-v) for m, v in self.c.items()})

    def __pos__(self):
        return self

    def __sub__(self, x):
        if isinstance(x, Poison):
            return x
        x = self._co(x)
        if x is None:
            return NotImplemented
        return self + (-x)

    def __rsub__(self, x):
        x = self._co(x)
        if x is None:
            return NotImplemented
        return x + (-self)

    def __mul__(self, x):
        if isinstance(x, Poison):
            return x
        if isinstance(x, complex):
            return CJ(self * x.real, self * x.imag)
        x = self._co(x)
        if x is None:
            return NotImplemented
        o = min(self.o, x.o)
        c = {}
        for m1, v1 in self.c.items():
            if not v1:
                continue
            s1 = sum(m1)
            if s1 > o:
                continue
            for m2, v2 in x.c.items():
                if v2 and s1 + sum(m2) <= o:
                    m = _mi_add(m1, m2)
                    c[m] = c.get(m, 0) + v1 * v2
        red = self.F.red
        return J(self.F, o, {m: red(v) for m, v in c.items()})
    __rmul__ = __mul__

    def value(self):
        return self.F.red(self.c.get(ZERO_MI, 0))

    def is_identically_zero(self):
        return all(self.F.is_zero(v) for m, v in self.c.items() if sum(m) <= self.o)

    def recip(self):
        a0 = self.value()
        if self.F.is_zero(a0):
            if self.is_identically_zero():
                return POISON
            raise Undecided('division by a field that vanishes at the generic point but not identically')
        i0 = self.F.inv(a0)
        u = self * J(self.F, INF, {ZERO_MI: i0})
        u = J(self.F, u.o, {m: v for m, v in u.c.items() if m != ZERO_MI})
        one = J(self.F, INF, {ZERO_MI: self.F.num(1)})
        r = one
        pw = one
        top = self.o if self.o != INF else 0
        for k in range(1, top + 1):
            pw = pw * u
            r = r + (pw if k % 2 == 0 else -pw)
        r = r * J(self.F, INF, {ZERO_MI: i0})
        return J(self.F, self.o, r.c)

    def __truediv__(self, x):
        if isinstance(x, Poison):
            return x
        if isinstance(x, J):
            return self * x.recip()
        x = self._co(x)
        if x is None:
            return NotImplemented
        return self * x.recip()

    def __rtruediv__(self, x):
        x = self._co(x)
        if x is None:
            return NotImplemented
        return x * self.recip()

    def __pow__(self, n):
        if isinstance(n, J):
            raise Undecided('jet exponent')
        if isinstance(n, (float, _np.floating)) and not float(n).is_integer():
            if self.F.kind == 'f':
                return self.rational_power(float(n))
            fr = Fraction(float(n)).limit_denominator(1000)
            if abs(float(fr) - float(n)) > 1e-15:
                raise Undecided(f'irrational power {n}')
            return self.rational_power(fr)
        n = int(n)
        if n < 0:
            r = self.recip()
            return r ** (-n)
        r = J(self.F, INF, {ZERO_MI: self.F.num(1)})
        b = self
        while n:
            if n & 1:
                r = r * b
            n >>= 1
            if n:
                b = b * b
        return r

    def _series(self, coef_of_k, scale):
        """scale * sum_k coef_of_k(k) u^k with self = a0 (1+u)."""
        a0 = self.value()
        u = self * J(self.F, INF, {ZERO_MI: self.F.inv(a0)})
        u = J(self.F, u.o, {m: v for m, v in u.c.items() if m != ZERO_MI})
        r = J.const(self.F, 1) * coef_of_k(0)
        pw = J.const(self.F, 1)
        top = self.o if self.o != INF else 0
        for k in range(1, top + 1):
            pw = pw * u
            r = r + pw * coef_of_k(k)
        r = r * scale
        return J(self.F, self.o, r.c)

    def rational_power(self, fr):
        if self.F.kind == 'f':
            a0 = self.value()
            if a0 <= 0:
                raise NeedResample('power of a non-positive float')
            def cf(k, fr=float(fr)):
                c = 1.0
                for j in range(k):
                    c *= (fr - j) / (j + 1)
                return c
            return self._series(cf, a0 ** float(fr))
        if fr == Fraction(1, 2):
            return self.sqrt()
        if fr == Fraction(-1, 2):
            return self.sqrt().recip()
        if fr.denominator == 12:
            for sq, root in self.F.root12_reg:
                if sq.same_as(self):
                    return root.trunc(self.o) ** fr.numerator
        if fr.denominator == 2:
            return self.sqrt() ** fr.numerator
        raise Undecided(f'power {fr} of an unregistered quantity')

    # -- calculus -----------------------------------------------------------
    def d(self, ax):
        if self.o == INF:
            return J(self.F, INF, {})
        if self.o <= 0:
            raise OrderExhausted('jet order exhausted (derivative of an order-0 jet)')
        red = self.F.red
        c = {}
        for m, v in self.c.items():
            if m[ax] > 0 and sum(m) <= self.o:
                m2 = list(m)
                m2[ax] -= 1
                c[tuple(m2)] = red(v * m[ax])
        return J(self.F, self.o - 1, c)

    def trunc(self, o):
        if o >= self.o:
            return self
        return J(self.F, o, {m: v for m, v in self.c.items() if sum(m) <= o})

    # -- comparison ---------------------------------------------------------
    def same_as(self, x, o=None):
        """coefficientwise equality up to the common order."""
        x = self._co(x)
        if o is None:
            o = min(self.o, x.o)
        if o == INF:
            o = 0
        z = self.F.is_zero
        keys = set(self.c) | set(x.c)
        return all(z(self.c.get(m, 0) - x.c.get(m, 0)) for m in keys if sum(m) <= o)

    def __ne__(self, x):
        """`b != 0` in safe_division: generic-point semantics."""
        if isinstance(x, Poison):
            raise Undecided('comparison with x/0')
        xx = self._co(x)
        if xx is None:
            return NotImplemented
        dlt = self - xx
        if not self.F.is_zero(dlt.value()):
            return True
        if dlt.is_identically_zero():
            return False
        raise Undecided('field vanishes at the generic point but not identically')

    def __eq__(self, x):
        r = self.__ne__(x)
        return r if r is NotImplemented else not r
    __hash__ = None

    def __bool__(self):
        raise Undecided('branch on an array value')

    def __lt__(self, x):
        raise Undecided('order comparison on a symbolic scalar')
    __le__ = __gt__ = __ge__ = __lt__

    # -- radicals / transcendental (registry, see DESIGN 1.2) ----------------
    def sqrt(self):
        if self.F.kind == 'f':
            if self.is_identically_zero():
                return J(self.F, self.o, {})
            return self.rational_power(Fraction(1, 2))
        for sq, root in self.F.sqrt_reg:
            if sq.same_as(self, o=min(self.o if self.o != INF else 0, sq.o)) and sq.o >= (self.o if self.o != INF else 0):
                return root.trunc(self.o)
        a0 = self.value()
        if self.F.is_zero(a0):
            if self.is_identically_zero():
                return J(self.F, self.o, {})
            raise Undecided('sqrt of a field vanishing at the generic point')
        r0 = self.F.sqrt_elem(a0)
        if r0 is None:
            raise NeedResample('sqrt of a non-square value')
        # sqrt(a0 (1+u)) = r0 * sum binom(1/2,k) u^k
        i0 = self.F.inv(a0)
        u = self * J(self.F, INF, {ZERO_MI: i0})
        u = J(self.F, u.o, {m: v for m, v in u.c.items() if m != ZERO_MI})
        one = J(self.F, INF, {ZERO_MI: self.F.num(1)})
        r = one
        pw = one
        top = self.o if self.o != INF else 0
        coef = Fraction(1)
        for k in range(1, top + 1):
            coef = coef * (Fraction(1, 2) - (k - 1)) / k
            pw = pw * u
            r = r + pw * J(self.F, INF, {ZERO_MI: self.F.num(coef)})
        r = r * J(self.F, INF, {ZERO_MI: r0})
        return J(self.F, self.o, r.c)

    def __abs__(self):
        # |x| = canonical sqrt(x^2): satisfies |x|=|-x|, |x|^2=x^2; equals x iff
        # x is the canonical root (properties declare which scalars are positive).
        if not self.F.p:
            v = self.value()
            if v == 0 and not self.is_identically_zero():
                raise Undecided('abs of a field vanishing at the point')
            return self if v >= 0 else -self
        if self.is_identically_zero():
            return self
        a0 = self.value()
        if self.F.is_zero(a0):
            raise Undecided('abs of a field vanishing at the generic point')
        if self.F.p:
            if a0 == min(a0, self.F.p - a0):
                return self
            if getattr(self.F, 'abs_positive', False):
                # the property declares every abs() argument positive (norms w.r.t. a positive-definite
                # metric): only points where x is the canonical root of x^2 model that
                raise NeedResample('abs of a non-canonical value under the positivity assumption')
            return -self
        return self if a0 > 0 else -self

    def is_canonical_positive(self):
        a0 = self.value()
        if self.F.p:
            return a0 != 0 and a0 == min(a0, self.F.p - a0)
        return a0 > 0

    def log(self):
        if self.F.kind == 'f':
            import math
            a0 = self.value()
            if a0 <= 0:
                raise NeedResample('log of a non-positive float')
            r = self._series(lambda k: 0.0 if k == 0 else (-1.0) ** (k + 1) / k, 1.0)
            return r + math.log(a0)
        for psi, phi in self.F.log_reg:
            if psi.same_as(self) and psi.o >= (self.o if self.o != INF else 0):
                return phi.trunc(self.o)
        raise Undecided('log of an unregistered quantity')

    def exp(self):
        if self.F.kind == 'f':
            import math
            a0 = self.value()
            v = J(self.F, self.o, {m: c for m, c in self.c.items() if m != ZERO_MI})
            r = J.const(self.F, 1.0)
            pw = J.const(self.F, 1.0)
            top = self.o if self.o != INF else 0
            fact = 1.0
            for k in range(1, top + 1):
                pw = pw * v
                fact *= k
                r = r + pw * (1.0 / fact)
            r = r * math.exp(a0)
            return J(self.F, self.o, r.c)
        # exp(c*phi) = psi^c for a registered (psi, phi), small integer c
        for psi, phi in self.F.log_reg:
            for cc in range(-12, 13):
                if (phi * cc).same_as(self) and phi.o >= (self.o if self.o != INF else 0):
                    return (psi ** cc).trunc(self.o) if cc >= 0 else (psi.recip() ** (-cc)).trunc(self.o)
        if self.is_identically_zero():
            return J(self.F, self.o, {ZERO_MI: self.F.num(1)})
        raise Undecided('exp of an unregistered quantity')

    # -- smooth scalar functions on float jets (numeric evidence only: C17) -------
    def compose(self, derivs):
        """f(self) from [f(a0), f'(a0), f''(a0), ...] (Taylor composition)"""
        a0 = self.value()
        u = J(self.F, self.o, {m: v for m, v in self.c.items() if m != ZERO_MI})
        r = J.const(self.F, derivs[0])
        pw = J.const(self.F, 1.0)
        top = self.o if self.o != INF else 0
        fact = 1.0
        for k in range(1, top + 1):
            pw = pw * u
            fact *= k
            r = r + pw * (derivs[k] / fact)
        return J(self.F, self.o, r.c)

    def _need_float(self, name):
        if self.F.kind != 'f':
            raise Undecided(f'{name} of a symbolic scalar (only available on float jets)')

    def sin(self):
        import math
        self._need_float('sin')
        a = self.value()
        s_, c_ = math.sin(a), math.cos(a)
        return self.compose([s_, c_, -s_, -c_, s_, c_][: (self.o if self.o != INF else 0) + 1])

    def cos(self):
        import math
        self._need_float('cos')
        a = self.value()
        s_, c_ = math.sin(a), math.cos(a)
        return self.compose([c_, -s_, -c_, s_, c_, -s_][: (self.o if self.o != INF else 0) + 1])

    def sinh(self):
        import math
        self._need_float('sinh')
        a = self.value()
        s_, c_ = math.sinh(a), math.cosh(a)
        return self.compose([s_, c_, s_, c_, s_, c_][: (self.o if self.o != INF else 0) + 1])

    def cosh(self):
        import math
        self._need_float('cosh')
        a = self.value()
        s_, c_ = math.sinh(a), math.cosh(a)
        return self.compose([c_, s_, c_, s_, c_, s_][: (self.o if self.o != INF else 0) + 1])

    def conjugate(self):
        return self

    @property
    def real(self):
        return self

    @property
    def imag(self):
        return J(self.F, self.o, {})

    def __repr__(self):
        return f'J<o={self.o} v={self.value()}>'


class CJ:
    """complex jet re + i im (Weyl scalars)."""
    __slots__ = ('re', 'im')

    def __init__(self, re, im):
        self.re = re
        self.im = im

    @staticmethod
    def _co(x):
        if isinstance(x, CJ):
            return x
        if isinstance(x, complex):
            return CJ(x.real, x.imag)
        if isinstance(x, (J, int, float, Fraction, _np.integer, _np.floating)):
            return CJ(x, 0)
        return None

    def __add__(self, x):
        x = CJ._co(x)
        if x is None:
            return NotImplemented
        return CJ(self.re + x.re, self.im + x.im)
    __radd__ = __add__

    def __neg__(self):
        return CJ(-self.re, -self.im)

    def __sub__(self, x):
        x = CJ._co(x)
        if x is None:
            return NotImplemented
        return CJ(self.re - x.re, self.im - x.im)

    def __rsub__(self, x):
        x = CJ._co(x)
        if x is None:
            return NotImplemented
        return CJ(x.re - self.re, x.im - self.im)

    def __mul__(self, x):
        x = CJ._co(x)
        if x is None:
            return NotImplemented
        return CJ(self.re * x.re - self.im * x.im, self.re * x.im + self.im * x.re)
    __rmul__ = __mul__

    def __truediv__(self, x):
        if isinstance(x, (CJ, complex)):
            x = CJ._co(x)
            den = x.re * x.re + x.im * x.im
            num = self * x.conjugate()
            return CJ(num.re / den, num.im / den)
        return CJ(self.re / x, self.im / x)

    def __pow__(self, n):
        n = int(n)
        r = CJ(1, 0)
        for _ in range(n):
            r = r * self
        return r

    def conjugate(self):
        return CJ(self.re, -self.im)

    @property
    def real(self):
        return self.re

    @property
    def imag(self):
        return self.im

    def same_as(self, x):
        x = CJ._co(x)
        return _same(self.re, x.re) and _same(self.im, x.im)

    def __repr__(self):
        return f'CJ<{self.re!r},{self.im!r}>'


def _same(a, b):
    if isinstance(a, J):
        return a.same_as(b)
    if isinstance(b, J):
        return b.same_as(a)
    return a == b


_MI_CACHE = {}


def multi_indices(o):
    if o not in _MI_CACHE:
        _MI_CACHE[o] = [m for m in itertools.product(range(o + 1), repeat=NV) if sum(m) <= o]
    return _MI_CACHE[o]


def omap(f, a):
    a = _np.asarray(a, dtype=object)
    out = _np.empty(a.shape, dtype=object)
    for i in _np.ndindex(*a.shape):
        out[i] = f(a[i])
    return out


def same(a, b):
    """scalar equality used by obligations (J / CJ / plain numbers)."""
    if isinstance(a, Poison) or isinstance(b, Poison):
        raise Undecided('x/0 reached the result')
    if isinstance(a, CJ) or isinstance(b, CJ):
        a = CJ._co(a)
        return a.same_as(b)
    if isinstance(a, complex) or isinstance(b, complex):
        a = complex(a) if not isinstance(a, J) else a
        if isinstance(a, J) or isinstance(b, J):
            return CJ._co(a).same_as(b)
        return a == b
    return _same(a, b)
