"""Native replay of E1/E3 counterexamples: the *unmodified* aurel code, real numpy, real
FiniteDifference (8th order) on a small grid around the probe point.

A refuted obligation `code != Spec` over F_p has no floating-point input of its own; the
witness is re-drawn over the reals (same scenario, float coefficients), every field the
function reads is materialised as the Taylor polynomial of its jet on a dyadic grid, the
real function is called, and the value at the probe point is compared with the float value
of the spec.  The finite differences are exact on the polynomial inputs; for derived fields
the 8th-order error with h = 1/64 is ~1e-12, far below the reported discrepancies.
"""
import random
import numpy as np

from .jets import Field, J, CJ, Undecided, NeedResample, Poison
from .e1 import Env, tens, untens
from .universe import Universe, SpecUnavailable, arr
from . import contracts as CT

N = 13
H = 1.0 / 64
IC = 6
TOL = 1e-7


def float_world(scen, seed):
    from .e1run import SCENARIOS
    kw = dict(SCENARIOS[scen])
    for attempt in range(200):
        F = Field('f')
        rng = random.Random(f'native/{scen}/{seed}/{attempt}')
        try:
            U = Universe(F, rng, **kw)
            from .e1run import shape_inputs
            shape_inputs(scen, U, F)
            return F, U, Env(F)
        except NeedResample:
            continue
    raise Undecided('no float world')


def poly_field(v, offs):
    """Taylor polynomial at t=0 of a jet (or number) on the grid offsets."""
    dx, dy, dz = offs
    if isinstance(v, CJ):
        return poly_field(v.re, offs) + 1j * poly_field(v.im, offs)
    if isinstance(v, J):
        out = np.zeros(dx.shape)
        for m, c in v.c.items():
            if m[0] == 0 and c != 0.0:
                out = out + float(c) * dx ** m[1] * dy ** m[2] * dz ** m[3]
        return out
    return np.full(dx.shape, float(v))


def field_of(spec, offs):
    if isinstance(spec, (list, tuple)):
        return type(spec)(field_of(s, offs) for s in spec)
    if spec is None:
        return None
    a = np.asarray(spec, dtype=object)
    if a.shape == ():
        return poly_field(a[()], offs)
    out = np.zeros(a.shape + offs[0].shape, dtype=complex if any(isinstance(e, CJ) for e in a.flat) else float)
    for idx in np.ndindex(*a.shape):
        out[idx] = poly_field(a[idx], offs)
    return out


def fval(v):
    if isinstance(v, CJ):
        return complex(fval(v.re), fval(v.im))
    if isinstance(v, J):
        return float(v.value())
    if isinstance(v, Poison):
        return float('nan')
    return complex(v) if isinstance(v, complex) else float(v)


def make_native(U, boundary='no boundary', **kw):
    import aurel
    x0 = [float(c.value()) for c in U.coords]
    param = dict(Nx=N, Ny=N, Nz=N, dx=H, dy=H, dz=H,
                 xmin=x0[0] - IC * H, ymin=x0[1] - IC * H, zmin=x0[2] - IC * H)
    fd = aurel.FiniteDifference(param, boundary=boundary, fd_order=8, verbose=False)
    if fd.x.shape != (N, N, N):
        raise Undecided('grid construction itself is off (np.arange length): cannot replay here')
    rel = aurel.AurelCore(fd, verbose=False, Lambda=float(U.Lambda.value()), **kw)
    rel.kappa = float(U.kappa.value())
    rel.vacuum = U.vacuum
    rel.tetrad = U.tetrad
    offs = (fd.x - x0[0], fd.y - x0[1], fd.z - x0[2])
    return rel, offs


def compare_center(res, spec, path=''):
    """-> list of (component, code value, spec value) differing at the probe point."""
    bad = []
    if isinstance(spec, (list, tuple)):
        if not isinstance(res, (list, tuple)) or len(res) != len(spec):
            return [(path, 'len', 'len')]
        for i, (r, s) in enumerate(zip(res, spec)):
            bad += compare_center(r, s, f'{path}[{i}]')
        return bad
    if isinstance(spec, dict):
        for k in spec:
            bad += compare_center(res[k], spec[k], f'{path}[{k!r}]')
        return bad
    if spec is None:
        return [] if res is None else [(path, 'not None', None)]
    s = np.asarray(spec, dtype=object)
    r = np.asarray(res)
    if r.shape[:len(s.shape)] != s.shape or r.ndim != len(s.shape) + 3:
        return [(path, f'shape {r.shape}', f'{s.shape}+grid')]
    svals = {idx: fval(s[idx] if s.shape else s[()]) for idx in (np.ndindex(*s.shape) if s.shape else [()])}
    scale = 1 + max(abs(v) for v in svals.values())
    for idx, sv in svals.items():
        cv = r[idx + (IC, IC, IC)]
        cv = complex(cv) if np.iscomplexobj(cv) else float(cv)
        if not (abs(cv - sv) <= TOL * scale):
            bad.append((path + str(list(idx)), cv, sv))
    return bad


def replay_function(name, scen, present, seed=0, args_builder=None):
    """-> (replayed, text) for a zero-argument AurelCore method."""
    F, U, env = float_world(scen, seed)
    spec = U[name]
    # which keys does the function read on this path?  (shimmed dry run on floats)
    st, det, stub, res = CT.run_function(env, U, name, set(present) | set(U.inputs))
    keys = set(stub.reads) | set(present) | set(U.inputs)
    rel, offs = make_native(U)
    before = {}
    for k in keys:
        try:
            rel.data[k] = field_of(U[k], offs)
            before[k] = np.copy(rel.data[k]) if isinstance(rel.data[k], np.ndarray) else None
        except SpecUnavailable:
            pass
    rel.freeze_data()
    lines = [f'native replay of AurelCore.{name}() on scenario {scen}, cache state {sorted(present)}',
             f'grid {N}^3, h=1/64, fd_order=8, probe point index ({IC},{IC},{IC}); preloaded keys: {sorted(before)}']
    try:
        out = getattr(rel, name)()
    except Exception as e:
        return False, '\n'.join(lines + [f'real function raised {type(e).__name__}: {e}'])
    mutated = [k for k, b in before.items() if b is not None and not np.array_equal(b, rel.data[k], equal_nan=True)]
    bad = compare_center(out, spec)
    for c, cv, sv in bad[:12]:
        lines.append(f'  component {c}: code {cv!r} vs textbook {sv!r}')
    if mutated:
        lines.append(f'  cached/input arrays modified in place by the call: {mutated}')
    if not bad and not mutated:
        lines.append('  no discrepancy above tolerance at the probe point')
    return bool(bad or mutated), '\n'.join(lines)


def replay_chain(key, scen, pre=(), seed=0, relkw=None):
    F, U, env = float_world(scen, seed)
    spec = U[key]
    rel, offs = make_native(U, **(relkw or {}))
    for k, v in U.inputs.items():
        rel.data[k] = field_of(v, offs)
    rel.freeze_data()
    lines = [f'native replay of rel[{key!r}] after requests {list(pre)} on scenario {scen}; inputs {sorted(U.inputs)}']
    try:
        for p in pre:
            rel[p]
        out = rel[key]
    except Exception as e:
        return False, '\n'.join(lines + [f'real code raised {type(e).__name__}: {e}'])
    bad = compare_center(out, spec)
    for c, cv, sv in bad[:12]:
        lines.append(f'  component {c}: code {cv!r} vs textbook {sv!r}')
    if not bad:
        lines.append('  no discrepancy above tolerance at the probe point')
    return bool(bad), '\n'.join(lines)
