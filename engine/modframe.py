"""Frame condition with respect to module-level state, decided on the AST of the real module, for every function of it:

  F1  no `global` statement;
  F2  no write into a module-level dict / list / set / ndarray: item or attribute assignment, deletion, augmented
      assignment, mutating method -- directly or through a local alias `x = NAME`;
  F3  no write through an *element* alias `x = NAME[k]` / `NAME.get(k)` / `NAME.setdefault(k, ..)` / `NAME.pop(k)`:
      item assignment, in-place operator, mutating method (incl. ndarray.fill / sort / resize / put), `out=x`;
  F4  no memoising decorator (functools.lru_cache / cache): a memoised function hands the same object out twice.

Together: the result of a call depends on its arguments (and files) only, and an object that was handed out earlier is
never reached again through module-level storage.  The analysis is flow-insensitive and per function; an alias passed
through a call is outside it (stated in the evidence) -- the dynamic snapshot `snapshot(mod)` / `changed(mod, snap)` is
its run-time complement.
"""
import ast
import inspect
import numpy as np

MUTATORS = {'append', 'extend', 'update', 'setdefault', 'pop', 'popitem', 'remove', 'clear', 'add', 'discard', 'insert', 'sort',
            'reverse', '__setitem__', '__delitem__', 'fill', 'resize', 'put', 'itemset', 'partition', 'setfield', 'byteswap'}
ELEMENT_GETTERS = {'get', 'setdefault', 'pop'}
MEMO = {'lru_cache', 'cache', 'cached_property'}


def module_state(mod):
    return {k for k, v in vars(mod).items() if isinstance(v, (dict, list, set, np.ndarray)) and not k.startswith('__')}


def module_frame(mod):
    """-> (violations, number of functions analysed, names of the module-level containers)"""
    tree = ast.parse(inspect.getsource(mod))
    modstate = module_state(mod)
    # names bound at module level to a container by a later statement of the source are state as well, even if the import
    # replaced them
    for n in tree.body:
        if isinstance(n, ast.Assign) and isinstance(n.value, (ast.Dict, ast.List, ast.Set, ast.DictComp, ast.ListComp, ast.SetComp)):
            modstate |= {t.id for t in n.targets if isinstance(t, ast.Name) and not t.id.startswith('__')}
    bad = []
    nfun = 0
    for fn in [n for n in ast.walk(tree) if isinstance(n, (ast.FunctionDef, ast.AsyncFunctionDef))]:
        nfun += 1
        for d in fn.decorator_list:
            nm = d.func if isinstance(d, ast.Call) else d
            nm = nm.attr if isinstance(nm, ast.Attribute) else getattr(nm, 'id', None)
            if nm in MEMO:
                bad.append(f'{fn.name}: memoised by @{nm} (the same object is handed out by later calls)')
        a = fn.args
        params = {x.arg for x in a.posonlyargs + a.args + a.kwonlyargs} | ({a.vararg.arg} if a.vararg else set()) | ({a.kwarg.arg} if a.kwarg else set())
        stored = {n.id for n in ast.walk(fn) if isinstance(n, ast.Name) and isinstance(n.ctx, ast.Store)}
        tracked = {m for m in modstate if m not in params | stored}     # a local of the same name shadows the module-level one
        alias, elem = {}, {}

        def element_of(e):
            """module-level container an expression takes an element of, or None"""
            if isinstance(e, ast.Subscript) and isinstance(e.value, ast.Name) and (e.value.id in tracked or e.value.id in alias):
                return alias.get(e.value.id, e.value.id)
            if (isinstance(e, ast.Call) and isinstance(e.func, ast.Attribute) and e.func.attr in ELEMENT_GETTERS
                    and isinstance(e.func.value, ast.Name) and (e.func.value.id in tracked or e.func.value.id in alias)):
                return alias.get(e.func.value.id, e.func.value.id)
            return None
        for _ in range(2):                       # two rounds: alias of alias
            for n in ast.walk(fn):
                if isinstance(n, ast.Global):
                    msg = f'{fn.name}: global {", ".join(n.names)}'
                    if msg not in bad:
                        bad.append(msg)
                if isinstance(n, (ast.Assign, ast.NamedExpr)):
                    val = n.value
                    tgts = n.targets if isinstance(n, ast.Assign) else [n.target]
                    for t in tgts:
                        if not isinstance(t, ast.Name):
                            continue
                        if isinstance(val, ast.Name) and (val.id in tracked or val.id in alias):
                            alias[t.id] = alias.get(val.id, val.id)
                        elif isinstance(val, ast.Name) and val.id in elem:
                            elem[t.id] = elem[val.id]
                        elif element_of(val):
                            elem[t.id] = element_of(val)
                    # chained assignment  R = STORE[k] = value : R is the stored element
                    if isinstance(n, ast.Assign) and len(n.targets) > 1:
                        stores = [t for t in n.targets if element_of(t)]
                        for t in n.targets:
                            if isinstance(t, ast.Name) and stores:
                                elem[t.id] = element_of(stores[0])
        names = tracked | set(alias)

        def root(e):
            return alias.get(e.id, e.id) if isinstance(e, ast.Name) and e.id in names else None

        def eroot(e):
            return elem.get(e.id) if isinstance(e, ast.Name) and e.id in elem and e.id not in names else None
        seen = set()

        def rep(msg):
            if msg not in seen:
                seen.add(msg)
                bad.append(msg)
        for n in ast.walk(fn):
            tgt = []
            if isinstance(n, ast.Assign):
                tgt = n.targets
            elif isinstance(n, (ast.AugAssign, ast.AnnAssign)):
                tgt = [n.target]
            elif isinstance(n, ast.Delete):
                tgt = n.targets
            for t in tgt:
                for sub in ast.walk(t):
                    if isinstance(sub, (ast.Subscript, ast.Attribute)) and isinstance(sub.ctx, (ast.Store, ast.Del)):
                        if root(sub.value):
                            rep(f'{fn.name}: line {n.lineno} writes into module-level {root(sub.value)}')
                        elif eroot(sub.value):
                            rep(f'{fn.name}: line {n.lineno} writes into an element of module-level {eroot(sub.value)}')
                if isinstance(n, ast.AugAssign) and isinstance(t, ast.Name):
                    if t.id in alias:
                        rep(f'{fn.name}: line {n.lineno} augmented assignment to an alias of module-level {alias[t.id]}')
                    elif eroot(t):
                        rep(f'{fn.name}: line {n.lineno} in-place operator on an element of module-level {eroot(t)}')
            if isinstance(n, ast.Call):
                if isinstance(n.func, ast.Attribute) and n.func.attr in MUTATORS:
                    if root(n.func.value):
                        rep(f'{fn.name}: line {n.lineno} calls .{n.func.attr}() on module-level {root(n.func.value)}')
                    elif eroot(n.func.value) and n.func.attr not in ELEMENT_GETTERS:
                        rep(f'{fn.name}: line {n.lineno} calls .{n.func.attr}() on an element of module-level {eroot(n.func.value)}')
                for kw in n.keywords:
                    if kw.arg == 'out' and (root(kw.value) or eroot(kw.value)):
                        rep(f'{fn.name}: line {n.lineno} out= targets module-level {root(kw.value) or eroot(kw.value)}')
    return bad, nfun, sorted(modstate)


def _freeze(v, depth=0):
    if isinstance(v, np.ndarray):
        return ('nd', v.shape, str(v.dtype), v.tobytes() if v.size < 10 ** 6 else id(v))
    if isinstance(v, dict):
        return ('d', tuple((repr(k), _freeze(x, depth + 1)) for k, x in v.items())) if depth < 4 else ('d', len(v))
    if isinstance(v, (list, tuple, set, frozenset)):
        it = sorted(v, key=repr) if isinstance(v, (set, frozenset)) else v
        return (type(v).__name__, tuple(_freeze(x, depth + 1) for x in it)) if depth < 4 else (type(v).__name__, len(v))
    return repr(v)


def snapshot(mod):
    return {k: _freeze(getattr(mod, k)) for k in module_state(mod)}


def changed(mod, snap):
    now = snapshot(mod)
    return sorted(k for k in set(now) | set(snap) if now.get(k) != snap.get(k))
