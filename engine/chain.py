"""E3-code: the real call chain.  An (unmodified, globals-re-bound) AurelCore instance
holds only the input jets; its fd is the C07 contract (exact derivation on jets) with the
*real* tensor wrappers; requests go through the real __getitem__/cleanup_cache."""
import time
import numpy as _np

from .jets import J, Undecided, NeedResample, omap
from .e1 import tens, untens
from .universe import SpecUnavailable, dd
from . import contracts as CT


def make_chain_fd(env, U):
    FDc = env.FDclass

    class ChainFD(FDc):
        def __init__(self):
            self.param = dict(Nx=1, Ny=1, Nz=1, dx=1.0, dy=1.0, dz=1.0, xmin=0.0, ymin=0.0, zmin=0.0)
            self.xmin = self.ymin = self.zmin = self.xmax = self.ymax = self.zmax = 0.0
            self.Nx = self.Ny = self.Nz = 1
            self.mask_len = 0
            c = U.coords
            self.x, self.y, self.z = tens(c[0]), tens(c[1]), tens(c[2])
            self.cartesian_coords = tens(c)

        def _d(self, f, ax):
            f = _np.asarray(f, dtype=object)
            if f.shape != (1, 1, 1):
                raise Undecided(f'd3x/y/z applied to shape {f.shape}')
            return dd(f, ax)

        def d3x(self, f): return self._d(f, 1)
        def d3y(self, f): return self._d(f, 2)
        def d3z(self, f): return self._d(f, 3)

        def cartesian_to_spherical(self, x, y, z):
            r = omap(lambda e: e.sqrt(), x * x + y * y + z * z)
            return r, None, None
    return ChainFD()


def make_rel(env, U, **kw):
    rel = env.Core(make_chain_fd(env, U), verbose=False, **kw)
    rel.kappa = U.kappa
    rel.Lambda = U.Lambda
    rel.vacuum = U.vacuum
    rel.tetrad = U.tetrad
    for k, v in U.inputs.items():
        a = tens(v)
        rel.data[k] = a
    rel.freeze_data()
    return rel


def chain_obligations(R, worlds, scen, keys, tag, npoints=1, backend='pit-exact', pre=(), relkw=None):
    """rel[key] through the real chain == Spec_key, one obligation per key.
    `pre`: keys requested first (history)."""
    made = 0
    for key in keys:
        t0 = time.time()
        bad, undec, raised = set(), None, None
        for k in range(npoints):
            for attempt in range(12):
                F, U, env = worlds.get(scen, k) if attempt == 0 else worlds.fresh(scen, k, attempt)
                try:
                    spec = U[key]
                    rel = make_rel(env, U, **(relkw or {}))
                    for p in pre:
                        rel[p]
                    res = rel[key]
                    bad |= {c for c, _ in CT.compare(res, spec)}
                    break
                except NeedResample:
                    continue
                except (SpecUnavailable, Undecided) as e:
                    undec = f'{type(e).__name__}: {e}'
                    break
                except ValueError as e:
                    raised = f'ValueError: {e}'
                    break
                except Exception as e:
                    raised = f'{type(e).__name__}: {e}'
                    break
            else:
                undec = 'resampling exhausted'
        secs = time.time() - t0
        name = f'chain.{key}[{scen}{"|after:" + "+".join(pre) if pre else ""}]:{tag}'
        made += 1

        def rp(o, key=key, scen=scen, pre=tuple(pre)):
            from . import native
            return native.replay_chain(key, scen, pre, worlds.seed, relkw)
        if raised:
            R.ob(name, key, 'refuted', backend, secs, 'raised: ' + raised, ['raised'], replay=rp)
        elif bad:
            R.ob(name, key, 'refuted', backend, secs, f'rel[{key!r}] through the real call chain != Spec', sorted(bad),
                 witness=dict(scenario=scen, seed=worlds.seed), replay=rp)
        elif undec:
            R.ob(name, key, 'undecided', backend, secs, undec)
        else:
            R.ob(name, key, 'discharged', backend, secs)
    return made
