"""Ghost specification functions (the `Spec_k` of DESIGN.md) over jet tensors.

A `Universe` holds one consistent set of input fields (jets) and answers
`U[key]` with the *textbook* value of every documented quantity for those
inputs.  Everything here is written from index-notation definitions and the
property statements -- not from the code under verification -- and uses
different algorithms where the code uses closed forms (Gauss-Jordan inverse,
Leibniz determinant, generic-rank covariant/Lie derivative).

Tensor convention: numpy object arrays of jets *without* grid axes.
Index convention for derivatives: derivative index first.
"""
import itertools
from fractions import Fraction
import numpy as np

from .jets import J, CJ, Field, omap, Undecided, NeedResample, INF, ZERO_MI, NV, multi_indices

R3 = range(3)
R4 = range(4)


class SpecUnavailable(Exception):
    pass


def arr(x):
    return np.array(x, dtype=object)


def ozeros(*shape):
    o = np.empty(shape, dtype=object)
    o[...] = 0
    return o


def dd(a, ax):
    """partial derivative along jet variable ax of every entry."""
    def f(e):
        if isinstance(e, J):
            return e.d(ax)
        if isinstance(e, CJ):
            return CJ(f(e.re), f(e.im))
        return 0
    if isinstance(a, np.ndarray):
        if a.ndim == 0:
            return f(a[()])
        return omap(f, a)
    return f(a)


def D3(a):
    """spatial gradient, derivative index first."""
    return arr([dd(a, 1), dd(a, 2), dd(a, 3)])


def D4(a):
    return arr([dd(a, 0), dd(a, 1), dd(a, 2), dd(a, 3)])


def ein(s, *ops):
    r = np.einsum(s, *[np.asarray(o, dtype=object) for o in ops])
    return r


def perm_sign(p):
    p = list(p)
    s = 1
    for i in range(len(p)):
        while p[i] != i:
            j = p[i]
            p[i], p[j] = p[j], p[i]
            s = -s
    return s


def leibniz_det(M):
    n = M.shape[0]
    tot = 0
    for p in itertools.permutations(range(n)):
        t = perm_sign(p)
        for i in range(n):
            t = t * M[i, p[i]]
        tot = tot + t
    return tot


def gauss_inverse(M):
    """inverse by Gauss-Jordan elimination (independent of the closed forms)."""
    n = M.shape[0]
    one = 1
    A = [[M[i, j] for j in range(n)] + [one if i == j else 0 for j in range(n)] for i in range(n)]
    def nz(e):
        v = e.value() if hasattr(e, 'value') else e
        return v != 0
    for c in range(n):
        if not nz(A[c][c]):                 # partial pivoting: a structurally or numerically vanishing diagonal entry
            for r in range(c + 1, n):
                if nz(A[r][c]):
                    A[c], A[r] = A[r], A[c]
                    break
        pv = 1 / A[c][c]
        A[c] = [e * pv for e in A[c]]
        for r in range(n):
            if r != c:
                f = A[r][c]
                A[r] = [a - f * b for a, b in zip(A[r], A[c])]
    return arr([[A[i][n + j] for j in range(n)] for i in range(n)])


def eps_symbol(n):
    e = ozeros(*([n] * n))
    for p in itertools.permutations(range(n)):
        e[p] = perm_sign(p)
    return e


def christoffel(g, ginv, Dg):
    """Gamma^a_{bc} = 1/2 g^{ad}(d_b g_{dc} + d_c g_{db} - d_d g_{bc}); Dg[c,a,b] = d_c g_{ab}."""
    half = Fraction(1, 2)
    n = g.shape[0]
    G = ozeros(n, n, n)
    for a in range(n):
        for b in range(n):
            for c in range(b, n):
                t = 0
                for d in range(n):
                    t = t + ginv[a, d] * (Dg[b, d, c] + Dg[c, d, b] - Dg[d, b, c])
                G[a, b, c] = G[a, c, b] = t * half
    return G


def riemann_uddd(Gam, DGam):
    """R^a_{bcd} = d_c G^a_{bd} - d_d G^a_{bc} + G^a_{cp}G^p_{bd} - G^a_{dp}G^p_{bc}; DGam[c,a,b,d]=d_c G^a_{bd}."""
    n = Gam.shape[0]
    R = ozeros(n, n, n, n)
    for a, b, c, d in itertools.product(range(n), repeat=4):
        if c >= d:
            continue
        t = DGam[c, a, b, d] - DGam[d, a, b, c]
        for p in range(n):
            t = t + Gam[a, c, p] * Gam[p, b, d] - Gam[a, d, p] * Gam[p, b, c]
        R[a, b, c, d] = t
        R[a, b, d, c] = -t
    return R


def covd(Gam, f, Df, idx):
    """covariant derivative of a tensor of any rank.  idx: string of 'u'/'d' per index;
    Df[c, ...] = partial_c f.  result[c, ...]."""
    n = Gam.shape[0]
    out = np.array(Df, dtype=object, copy=True)
    rank = len(idx)
    for c in range(n):
        for I in itertools.product(range(n), repeat=rank):
            t = out[(c,) + I]
            for pos, ud in enumerate(idx):
                for s in range(n):
                    Is = I[:pos] + (s,) + I[pos + 1:]
                    if ud == 'u':
                        t = t + Gam[I[pos], c, s] * f[Is]
                    else:
                        t = t - Gam[s, c, I[pos]] * f[Is]
            out[(c,) + I] = t
    return out


class Universe:
    """one consistent world: input fields + every derived quantity's textbook value."""

    def __init__(self, F, rng, mode='onshell', order=2, shift='full', lapse='full',
                 matter='T', vacuum=False, tetrad='quasi-Kinnersley', input_form='tensor',
                 with_K=True, flat=False, fluid_zero=(), dtshift_free=False):
        self.F, self.rng, self.mode, self.order = F, rng, mode, order
        self.vacuum, self.tetrad = vacuum, tetrad
        self.memo = {}
        self.matter_mode = matter
        c = lambda v: J.const(F, v)
        tv = (0, 1, 2, 3) if mode == 'onshell' else (1, 2, 3)
        if F.kind == 'f':
            self.kappa = c(8 * 3.141592653589793)
            self.Lambda = c(0) if vacuum else c(rng.uniform(0.1, 0.5))
        else:
            self.kappa = c(rng.randrange(2, 10 ** 6))
            self.Lambda = c(0) if vacuum else c(rng.randrange(2, 10 ** 6))
        o = order
        rj = lambda: J.rand(F, o, rng, tv)
        # --- spatial metric gamma = psi^4 L L^T, det(L L^T) = 1
        if flat:      # the documented defaults: gamma_ij = delta_ij
            psi, a, b = c(1), c(1), c(1)
            l10, l20, l21 = c(0), c(0), c(0)
        else:
            psi = rj()
            a, b = rj(), rj()
            l10, l20, l21 = rj(), rj(), rj()
        pre_alpha = pre_beta = None
        if vacuum and mode == 'onshell' and not flat:
            # Ricci-flat data: the ten equations R_mu_nu = 0 at the generic point are affine in the
            # second-order Taylor coefficients of the ten parameter fields; solve them for one coefficient each
            pre_alpha, pre_beta = rj(), [rj(), rj(), rj()]
            P = [psi, a, b, l10, l20, l21, pre_alpha] + pre_beta
            P = self._solve_ricci_flat(P)
            psi, a, b, l10, l20, l21, pre_alpha = P[:7]
            pre_beta = P[7:]
        L = arr([[a, 0, 0], [l10, b, 0], [l20, l21, 1 / (a * b)]])
        gt = ein('ik,jk->ij', L, L)
        psi4 = psi ** 4
        self.psi = psi
        gamma = omap(lambda e: e * psi4, gt)
        gammadet = psi ** 12
        F.root12_reg.append((gammadet, psi))
        F.sqrt_reg.append((gammadet, psi ** 6))
        if flat:
            phi = c(0)
            F.log_reg.append((psi, phi))
        elif F.kind == 'f':
            phi = psi.log()
        else:
            phi0 = J(F, INF, {ZERO_MI: F.num(rng.randrange(2, 10 ** 6))})
            # phi = log psi: value is a free indeterminate, derivatives from d phi = d psi / psi
            phi = self._formal_log(psi, phi0)
            F.log_reg.append((psi, phi))
        self.phi = phi
        # --- lapse, shift
        alpha = (pre_alpha if pre_alpha is not None else rj()) if lapse == 'full' else c(1)
        if shift == 'full':
            beta = arr(pre_beta) if pre_beta is not None else arr([rj(), rj(), rj()])
        elif shift == 'zero':
            beta = arr([c(0), c(0), c(0)])
        else:   # e.g. 'y': only beta^y non zero
            beta = arr([rj() if ax in shift else c(0) for ax in 'xyz'])
        F.sqrt_reg.append((alpha * alpha * gammadet, alpha * psi ** 6))
        self.base = dict(alpha=alpha, beta=beta, gamma=gamma)
        self.coords = arr([J(F, 9, {ZERO_MI: (F.num(rng.randrange(20, 60) / 64) if F.kind == 'f'
                                              else F.num(rng.randrange(2, 10 ** 6))),
                                    tuple(1 if k == ax else 0 for k in range(NV)): F.num(1)})
                           for ax in (1, 2, 3)])
        if mode == 'onshell':
            # K_ij := -(d_t gamma_ij - L_beta gamma_ij) / (2 alpha)
            Dg = D3(gamma)
            Db = D3(beta)
            Lg = (ein('k,kij->ij', beta, Dg) + ein('kj,ik->ij', gamma, Db) + ein('ik,jk->ij', gamma, Db))
            K = omap(lambda e: e, (Lg - dd(gamma, 0)) / (2 * alpha))
            self.base.update(K=K, dtalpha=dd(alpha, 0), dtbeta=dd(beta, 0))
        else:
            if with_K:
                Kl = [[J.rand(F, max(o - 1, 0), rng, tv) for _ in R3] for _ in R3]
                K = arr([[Kl[min(i, j)][max(i, j)] for j in R3] for i in R3])
            else:
                K = arr([[c(0)] * 3] * 3)
            self.base.update(K=K, dtalpha=J.rand(F, max(o - 1, 0), rng, tv) if lapse == 'full' else c(0),
                             dtbeta=arr([J.rand(F, max(o - 1, 0), rng, tv) if (dtshift_free or not e.is_identically_zero()) else c(0)
                                         for e in beta]))
        # --- matter
        self.fluid = None
        if matter == 'fluid':
            fo = max(o - 1, 0)
            v = arr([J.rand(F, fo, rng, tv) for _ in R3])
            v2 = ein('i,j,ij->', v, v, gamma)
            W = 1 / (1 - v2).sqrt()         # W = (1 - v_i v^i)^(-1/2)
            if 'v' in fluid_zero:
                v = arr([c(0)] * 3)
                W = c(1)
            self.fluid = dict(rho0=J.rand(F, fo, rng, tv), eps=J.rand(F, fo, rng, tv),
                              press=J.rand(F, fo, rng, tv), W=W, v=v)
            for zk in fluid_zero:
                if zk in ('rho0', 'eps', 'press'):
                    self.fluid[zk] = c(0)
        elif matter == 'none':
            self.fluid = dict(rho0=c(0), eps=c(0), press=c(0), W=c(1), v=arr([c(0)] * 3))
        # matter == 'T': Tdown4 is an input: on-shell T := (G + Lambda g)/kappa, else free symmetric
        self.inputs = {}
        self._build_inputs(input_form)

    @staticmethod
    def _metric_from_params(P):
        psi, a, b, l10, l20, l21, alpha = P[:7]
        beta = arr(P[7:])
        L = arr([[a, 0, 0], [l10, b, 0], [l20, l21, 1 / (a * b)]])
        psi4 = psi ** 4
        gamma = omap(lambda e: e * psi4, ein('ik,jk->ij', L, L))
        g = ozeros(4, 4)
        bd = ein('ij,j->i', gamma, beta)
        g[0, 0] = -alpha * alpha + ein('i,i->', beta, bd)
        g[0, 1:] = bd
        g[1:, 0] = bd
        g[1:, 1:] = gamma
        return g

    def _ricci_values(self, P):
        g = self._metric_from_params(P)
        gi = gauss_inverse(g)
        Gam = christoffel(g, gi, D4(g))
        Rm = riemann_uddd(Gam, D4(Gam))
        Ric = ein('abad->bd', Rm)
        return [Ric[i, j].value() for i in range(4) for j in range(i, 4)]

    def _solve_ricci_flat(self, P):
        F = self.F
        if F.kind != 'p':
            return self._solve_ricci_flat_float(P)
        p = F.p
        second = [m for m in multi_indices(2) if sum(m) == 2]
        for attempt in range(20):
            slots = [(k, second[(k * 3 + attempt * 7 + j) % len(second)]) for j, k in enumerate(range(10))]
            R0 = self._ricci_values(P)
            cols = []
            for k, m in slots:
                Q = list(P)
                c2 = dict(P[k].c)
                c2[m] = (c2.get(m, 0) + 1) % p
                Q[k] = J(F, P[k].o, c2)
                Rk = self._ricci_values(Q)
                cols.append([(x - y) % p for x, y in zip(Rk, R0)])
            # solve sum_k cols[k] * d_k = -R0  (10 x 10 over F_p)
            A = [[cols[k][i] for k in range(10)] + [(-R0[i]) % p] for i in range(10)]
            ok = True
            for cidx in range(10):
                piv = next((r for r in range(cidx, 10) if A[r][cidx] % p), None)
                if piv is None:
                    ok = False
                    break
                A[cidx], A[piv] = A[piv], A[cidx]
                inv = pow(A[cidx][cidx], p - 2, p)
                A[cidx] = [x * inv % p for x in A[cidx]]
                for r in range(10):
                    if r != cidx and A[r][cidx]:
                        f = A[r][cidx]
                        A[r] = [(x - f * y) % p for x, y in zip(A[r], A[cidx])]
            if not ok:
                continue
            Q = list(P)
            for (k, m), row in zip(slots, A):
                c2 = dict(Q[k].c)
                c2[m] = (c2.get(m, 0) + row[10]) % p
                Q[k] = J(F, Q[k].o, c2)
            assert all(v % p == 0 for v in self._ricci_values(Q)), 'Ricci-flat solve failed'
            return Q
        raise Undecided('could not construct Ricci-flat data')

    def _solve_ricci_flat_float(self, P):
        import numpy as _n
        F = self.F
        second = [m for m in multi_indices(2) if sum(m) == 2]
        slots = [(k, second[(k * 3 + j) % len(second)]) for j, k in enumerate(range(10))]
        R0 = _n.array(self._ricci_values(P), dtype=float)
        M = _n.zeros((10, 10))
        for col, (k, m) in enumerate(slots):
            Q = list(P)
            c2 = dict(P[k].c)
            c2[m] = c2.get(m, 0.0) + 1.0
            Q[k] = J(F, P[k].o, c2)
            M[:, col] = _n.array(self._ricci_values(Q), dtype=float) - R0
        d = _n.linalg.solve(M, -R0)
        Q = list(P)
        for (k, m), dv in zip(slots, d):
            c2 = dict(Q[k].c)
            c2[m] = c2.get(m, 0.0) + float(dv)
            Q[k] = J(F, Q[k].o, c2)
        return Q

    def _formal_log(self, psi, phi0):
        # phi = phi0 + log(1+u), psi = psi0 (1+u)
        F = self.F
        i0 = F.inv(psi.value())
        u = psi * J(F, INF, {ZERO_MI: i0})
        u = J(F, u.o, {m: v for m, v in u.c.items() if m != ZERO_MI})
        r = J(F, psi.o, dict(phi0.c))
        pw = J.const(F, 1)
        for k in range(1, psi.o + 1):
            pw = pw * u
            r = r + pw * J.const(F, Fraction((-1) ** (k + 1), k))
        return J(F, psi.o, r.c)

    # ------------------------------------------------------------------ inputs
    def _build_inputs(self, form):
        b = self.base
        I = self.inputs
        comps3 = [(0, 0, 'xx'), (0, 1, 'xy'), (0, 2, 'xz'), (1, 1, 'yy'), (1, 2, 'yz'), (2, 2, 'zz')]
        if form == 'tensor':
            I['gammadown3'] = b['gamma']
            I['Kdown3'] = b['K']
            I['betaup3'] = b['beta']
            I['dtbetaup3'] = b['dtbeta']
        elif form == 'components':
            for i, j, n in comps3:
                I['g' + n] = b['gamma'][i, j]
                I['k' + n] = b['K'][i, j]
            for i, n in enumerate('xyz'):
                I['beta' + n] = b['beta'][i]
                I['dtbeta' + n] = b['dtbeta'][i]
        elif form == 'none':
            pass
        I['alpha'] = b['alpha']
        I['dtalpha'] = b['dtalpha']
        if self.matter_mode == 'T':
            if self.mode == 'onshell':
                G = self['Einsteindown4_textbook']
                I['Tdown4'] = omap(lambda e: e, (G + self.Lambda * self['gdown4']) / self.kappa)
            else:
                Tl = [[J.rand(self.F, 0, self.rng) for _ in R4] for _ in R4]
                I['Tdown4'] = arr([[Tl[min(i, j)][max(i, j)] for j in R4] for i in R4])
        elif self.matter_mode == 'fluid':
            f = self.fluid
            I.update(rho0=f['rho0'], eps=f['eps'], press=f['press'], w_lorentz=f['W'],
                     velx=f['v'][0], vely=f['v'][1], velz=f['v'][2])

    def drop_inputs(self, *keys):
        """declare that the user did *not* provide these (they must then equal their defaults)."""
        for k in keys:
            self.inputs.pop(k, None)

    # ------------------------------------------------------------------ access
    def __getitem__(self, key):
        if key in self.memo:
            return self.memo[key]
        if key in self.inputs:
            v = self.inputs[key]
        else:
            fn = getattr(self, 'k_' + key, None)
            if fn is None:
                raise SpecUnavailable(key)
            v = fn()
        self.memo[key] = v
        return v

    def has(self, key):
        return key in self.inputs or hasattr(self, 'k_' + key)

    def need4(self):
        if self.mode != 'onshell':
            raise SpecUnavailable('needs the 4D (time-dependent) universe')

    # =================================================================== metric
    def k_alpha(self): return self.base['alpha']
    def k_dtalpha(self): return self.base['dtalpha']
    def k_betaup3(self): return self.base['beta']
    def k_betax(self): return self.base['beta'][0]
    def k_betay(self): return self.base['beta'][1]
    def k_betaz(self): return self.base['beta'][2]
    def k_dtbetaup3(self): return self.base['dtbeta']
    def k_dtbetax(self): return self.base['dtbeta'][0]
    def k_dtbetay(self): return self.base['dtbeta'][1]
    def k_dtbetaz(self): return self.base['dtbeta'][2]
    def k_gammadown3(self): return self.base['gamma']
    def k_gxx(self): return self.base['gamma'][0, 0]
    def k_gxy(self): return self.base['gamma'][0, 1]
    def k_gxz(self): return self.base['gamma'][0, 2]
    def k_gyy(self): return self.base['gamma'][1, 1]
    def k_gyz(self): return self.base['gamma'][1, 2]
    def k_gzz(self): return self.base['gamma'][2, 2]
    def k_Kdown3(self): return self.base['K']
    def k_kxx(self): return self.base['K'][0, 0]
    def k_kxy(self): return self.base['K'][0, 1]
    def k_kxz(self): return self.base['K'][0, 2]
    def k_kyy(self): return self.base['K'][1, 1]
    def k_kyz(self): return self.base['K'][1, 2]
    def k_kzz(self): return self.base['K'][2, 2]

    def k_gammaup3(self): return gauss_inverse(self['gammadown3'])
    def k_gammadet(self): return leibniz_det(self['gammadown3'])
    def k_betadown3(self): return ein('ij,j->i', self['gammadown3'], self['betaup3'])
    def k_betamag(self): return ein('i,i->', self['betaup3'], self['betadown3'])
    def k_gtt(self): return -self['alpha'] ** 2 + self['betamag']
    def k_gtx(self): return self['betadown3'][0]
    def k_gty(self): return self['betadown3'][1]
    def k_gtz(self): return self['betadown3'][2]

    def k_gdown4(self):
        g = ozeros(4, 4)
        g[0, 0] = self['gtt']
        for i in R3:
            g[0, i + 1] = g[i + 1, 0] = self['betadown3'][i]
            for j in R3:
                g[i + 1, j + 1] = self['gammadown3'][i, j]
        return g

    def k_gup4(self): return gauss_inverse(self['gdown4'])
    def k_gdet(self): return leibniz_det(self['gdown4'])

    def k_nup4(self):
        a = self['alpha']
        return arr([1 / a] + [-self['betaup3'][i] / a for i in R3])

    def k_ndown4(self): return arr([-self['alpha'], 0, 0, 0])

    def k_gammadown4(self):
        # gamma_{mu nu} = g_{mu nu} + n_mu n_nu
        return self['gdown4'] + ein('a,b->ab', self['ndown4'], self['ndown4'])

    def k_gammaup4(self):
        return self['gup4'] + ein('a,b->ab', self['nup4'], self['nup4'])

    def k_dttau(self):
        return abs(self['alpha'] ** 2 - self['betamag']).sqrt()

    def k_psi_bssnok(self): return self['gammadet'] ** (1 / 12)
    def k_phi_bssnok(self): return self['psi_bssnok'].log()
    def k_gammadown3_bssnok(self): return self['gammadown3'] * self['psi_bssnok'] ** (-4)
    def k_gammaup3_bssnok(self): return gauss_inverse(self['gammadown3_bssnok'])

    def k_Kup3(self): return ein('ia,jb,ab->ij', self['gammaup3'], self['gammaup3'], self['Kdown3'])
    def k_Ktrace(self): return ein('ij,ij->', self['gammaup3'], self['Kdown3'])
    def k_Adown3(self): return self['Kdown3'] - self['gammadown3'] * self['Ktrace'] * Fraction(1, 3)
    def k_Aup3(self): return ein('ia,jb,ab->ij', self['gammaup3'], self['gammaup3'], self['Adown3'])
    def k_A2(self): return ein('ij,ij->', self['Adown3'], self['Aup3']) * Fraction(1, 2)
    def k_Adown3_bssnok(self): return self['Adown3'] * self['psi_bssnok'] ** (-4)

    def k_Aup3_bssnok(self):
        gu = self['gammaup3_bssnok']
        return ein('ia,jb,ab->ij', gu, gu, self['Adown3_bssnok'])

    def k_A2_bssnok(self): return ein('ij,ij->', self['Adown3_bssnok'], self['Aup3_bssnok'])

    def k_DDalpha(self):
        da = D3(self['alpha'])
        return covd(self['s_Gamma_udd3'], da, D3(da), 'd')

    # --- true coordinate-time derivatives (property C06): d/dt of the spec
    def k_dtgammaup3(self): self.need4(); return dd(self['gammaup3'], 0)
    def k_dtphi_bssnok(self): self.need4(); return dd(self['phi_bssnok'], 0)
    def k_dtgammadown3_bssnok(self): self.need4(); return dd(self['gammadown3_bssnok'], 0)
    def k_dtKtrace(self): self.need4(); return dd(self['Ktrace'], 0)
    def k_dtAdown3_bssnok(self): self.need4(); return dd(self['Adown3_bssnok'], 0)
    def k_dts_Gamma_bssnok(self): self.need4(); return dd(self['s_Gamma_bssnok'], 0)

    # ======================================================== spatial curvature
    def k_s_Gamma_udd3(self):
        g = self['gammadown3']
        return christoffel(g, self['gammaup3'], D3(g))

    def k_s_Riemann_uddd3(self):
        G = self['s_Gamma_udd3']
        return riemann_uddd(G, D3(G))

    def k_s_Riemann_down3(self): return ein('ai,ibcd->abcd', self['gammadown3'], self['s_Riemann_uddd3'])
    def k_s_Ricci_down3(self): return ein('abad->bd', self['s_Riemann_uddd3'])
    def k_s_RicciS(self): return ein('ij,ij->', self['gammaup3'], self['s_Ricci_down3'])

    def k_s_Gamma_udd3_bssnok(self):
        g = self['gammadown3_bssnok']
        return christoffel(g, self['gammaup3_bssnok'], D3(g))

    def k_s_Gamma_bssnok(self):
        # tilde Gamma^i = tilde gamma^{jk} tilde Gamma^i_{jk}
        return ein('jk,ijk->i', self['gammaup3_bssnok'], self['s_Gamma_udd3_bssnok'])

    def k_s_Ricci_down3_bssnok(self):
        G = self['s_Gamma_udd3_bssnok']
        return ein('abad->bd', riemann_uddd(G, D3(G)))

    def k_s_RicciS_bssnok(self):
        return ein('ij,ij->', self['gammaup3_bssnok'], self['s_Ricci_down3_bssnok'])

    def k_s_Ricci_down3_phi(self):
        # the remainder of the conformal split: R_ij = tilde R_ij + R^phi_ij
        return self['s_Ricci_down3'] - self['s_Ricci_down3_bssnok']

    # =========================================================== 4D textbook
    def k_st_Gamma_udd4(self):
        self.need4()
        g = self['gdown4']
        return christoffel(g, self['gup4'], D4(g))

    def k_st_Riemann_uddd4(self):
        self.need4()
        G = self['st_Gamma_udd4']
        return riemann_uddd(G, D4(G))

    def k_st_Riemann_down4(self): return ein('ai,ibcd->abcd', self['gdown4'], self['st_Riemann_uddd4'])

    def k_st_Riemann_uudd4(self):
        return ein('bj,ajcd->abcd', self['gup4'], self['st_Riemann_uddd4'])

    def k_Ricci4_textbook(self): return ein('abad->bd', self['st_Riemann_uddd4'])
    def k_RicciS4_textbook(self): return ein('ab,ab->', self['gup4'], self['Ricci4_textbook'])

    def k_Einsteindown4_textbook(self):
        return self['Ricci4_textbook'] - self['gdown4'] * self['RicciS4_textbook'] * Fraction(1, 2)

    def k_st_Ricci_down4(self): return self['Ricci4_textbook']
    def k_st_Ricci_down3(self): return self['Ricci4_textbook'][1:, 1:]
    def k_st_RicciS(self): return self['RicciS4_textbook']
    def k_Einsteindown4(self): return self['Einsteindown4_textbook']

    def k_Kretschmann(self):
        # R^{ab}_{cd} R_{ab}^{cd}
        Ruu = self['st_Riemann_uudd4']
        gu = self['gup4']
        Rdd_uu = ein('abkd,kc->abcd', ein('abkl,ld->abkd', self['st_Riemann_down4'], gu), gu)
        return ein('abcd,abcd->', Ruu, Rdd_uu)

    def k_st_Weyl_down4(self):
        # C = R - (g_a[c R_d]b - g_b[c R_d]a) + R/3 g_a[c g_d]b   (n = 4)
        R = self['st_Riemann_down4']
        Ric, S, g = self['Ricci4_textbook'], self['RicciS4_textbook'], self['gdown4']
        C = ozeros(4, 4, 4, 4)
        h, s6 = Fraction(1, 2), Fraction(1, 6)
        for a, b, c, d in itertools.product(R4, repeat=4):
            C[a, b, c, d] = (R[a, b, c, d]
                             - (g[a, c] * Ric[d, b] - g[a, d] * Ric[c, b]
                                - g[b, c] * Ric[d, a] + g[b, d] * Ric[c, a]) * h
                             + S * (g[a, c] * g[d, b] - g[a, d] * g[c, b]) * s6)
        return C

    # ================================================================== matter
    def _fl(self, n):
        if self.fluid is None:
            raise SpecUnavailable('fluid variables are defaults when Tdown4 is supplied')
        return self.fluid[n]

    def k_rho0(self):
        return self._fl('rho0') if self.fluid else J.const(self.F, 0)

    def k_eps(self):
        return self._fl('eps') if self.fluid else J.const(self.F, 0)

    def k_press(self):
        return self._fl('press') if self.fluid else J.const(self.F, 0)

    def k_w_lorentz(self):
        return self._fl('W') if self.fluid else J.const(self.F, 1)

    def _v(self):
        return self.fluid['v'] if self.fluid else arr([J.const(self.F, 0)] * 3)

    def k_velx(self): return self._v()[0]
    def k_vely(self): return self._v()[1]
    def k_velz(self): return self._v()[2]
    def k_velup3(self): return self._v()
    def k_velup4(self): return arr([J.const(self.F, 0)] + list(self._v()))
    def k_veldown4(self): return ein('ab,b->a', self['gammadown4'], self['velup4'])
    def k_veldown3(self): return ein('ij,j->i', self['gammadown3'], self['velup3'])
    def k_rho(self): return self['rho0'] * (1 + self['eps'])

    def k_enthalpy(self):
        r0 = self['rho0']
        if r0.is_identically_zero():
            return 1 + self['eps']     # documented x/0 = 0 convention
        return 1 + self['eps'] + self['press'] / r0

    def k_uup0(self): return self['w_lorentz'] / self['alpha']
    def k_uup3(self): return (self['velup3'] - self['betaup3'] / self['alpha']) * self['w_lorentz']
    def k_uup4(self): return arr([self['uup0']] + list(self['uup3']))
    def k_udown4(self): return ein('ab,b->a', self['gdown4'], self['uup4'])
    def k_udown3(self): return self['udown4'][1:]
    def k_hdown4(self): return self['gdown4'] + ein('a,b->ab', self['udown4'], self['udown4'])
    def k_hup4(self): return self['gup4'] + ein('a,b->ab', self['uup4'], self['uup4'])
    def k_hmixed4(self): return ein('ac,cb->ab', self['gup4'], self['hdown4'])
    def k_hdet(self): return leibniz_det(self['hdown4'][1:, 1:])

    def k_Tdown4(self):
        # perfect fluid, indices down (property C09)
        return (ein('a,b->ab', self['udown4'], self['udown4']) * self['rho']
                + self['hdown4'] * self['press'])

    def k_Tup4(self): return ein('ac,bd,cd->ab', self['gup4'], self['gup4'], self['Tdown4'])
    def k_Ttrace(self): return ein('ab,ab->', self['gup4'], self['Tdown4'])
    def k_rho_n(self): return ein('ab,a,b->', self['Tdown4'], self['nup4'], self['nup4'])

    def k_fluxup3_n(self):
        # S^i = - gamma^{i mu} T_{mu nu} n^nu
        return -ein('am,mn,n->a', self['gammaup4'], self['Tdown4'], self['nup4'])[1:]

    def k_fluxdown3_n(self): return ein('ij,j->i', self['gammadown3'], self['fluxup3_n'])
    def k_Stressdown3_n(self): return self['Tdown4'][1:, 1:]

    def k_Stressup3_n(self):
        return ein('ia,jb,ab->ij', self['gammaup3'], self['gammaup3'], self['Stressdown3_n'])

    def k_Stresstrace_n(self): return ein('ij,ij->', self['gammaup3'], self['Stressdown3_n'])
    def k_press_n(self): return self['Stresstrace_n'] * Fraction(1, 3)

    def k_anisotropic_press_down3_n(self):
        return self['Stressdown3_n'] - self['gammadown3'] * self['press_n']

    def k_levicivita_down3(self):
        return eps_symbol(3) * self['gammadet'].sqrt()

    def k_levicivita_down4(self):
        return eps_symbol(4) * (-self['gdet']).sqrt()

    def k_angmomdown3_n(self):
        return ein('ijk,j,k->i', self['levicivita_down3'], self.coords, self['fluxup3_n'])

    def k_angmomup3_n(self): return ein('ij,j->i', self['gammaup3'], self['angmomdown3_n'])
    def k_conserved_D(self): return self['rho0'] * self['w_lorentz'] * self['gammadet'].sqrt()
    def k_conserved_E(self): return self['conserved_D'] * self['eps']
    def k_conserved_Sdown4(self): return self['udown4'] * (self['conserved_D'] * self['enthalpy'])
    def k_conserved_Sdown3(self): return self['conserved_Sdown4'][1:]
    def k_conserved_Sup4(self): return ein('ab,b->a', self['gup4'], self['conserved_Sdown4'])
    def k_conserved_Sup3(self): return self['conserved_Sup4'][1:]
    def k_rho_n_fromHam(self): self.need4(); return self['rho_n']
    def k_fluxup3_n_fromMom(self): self.need4(); return self['fluxup3_n']

    # ============================================================== constraints
    def k_Hamiltonian(self):
        self.need4()
        return J.const(self.F, 0)

    def k_Momentumup3(self):
        self.need4()
        return arr([J.const(self.F, 0)] * 3)

    def k_Momentumdown3(self): return self['Momentumup3']
    def k_Momentumx(self): return self['Momentumup3'][0]
    def k_Momentumy(self): return self['Momentumup3'][1]
    def k_Momentumz(self): return self['Momentumup3'][2]
    def k_Momentumdownx(self): return self['Momentumdown3'][0]
    def k_Momentumdowny(self): return self['Momentumdown3'][1]
    def k_Momentumdownz(self): return self['Momentumdown3'][2]

    def k_Hamiltonian_Escale(self):
        KK = ein('ij,ij->', self['Kdown3'], self['Kup3'])
        t = self['s_RicciS'] ** 2 + self['Ktrace'] ** 4 + KK ** 2
        if not self.vacuum:
            t = t + (2 * self.kappa * self['rho_n']) ** 2 + (2 * self.Lambda) ** 2
        return abs(t).sqrt()

    def k_Momentum_Escale(self):
        DK = self.covd3(self['Kdown3'], 'dd')
        gu = self['gammaup3']
        a = ein('ab,abc->c', gu, DK)
        b = ein('bc,abc->a', gu, DK)
        t = ein('a,ad,d->', a, gu, a) + ein('a,ad,d->', b, gu, b)
        if not self.vacuum:
            t = t + self.kappa ** 2 * ein('a,a->', self['fluxup3_n'], self['fluxdown3_n'])
        return abs(t).sqrt()

    # ==================================================== Weyl electric/magnetic
    def k_eweyl_n_down3(self):
        n = self['nup4']
        return ein('ambn,m,n->ab', self['st_Weyl_down4'], n, n)[1:, 1:]

    def _dualC(self):
        # *C_{ab ef} = 1/2 C_{ab cd} eps^{cd}_{ef}
        gu = self['gup4']
        LCuudd = ein('ac,bd,abef->cdef', gu, gu, self['levicivita_down4'])
        return ein('abcd,cdef->abef', self['st_Weyl_down4'], LCuudd) * Fraction(1, 2)

    def k_bweyl_n_down3(self):
        n = self['nup4']
        return ein('abef,b,f->ae', self._dualC(), n, n)[1:, 1:]

    def k_eweyl_u_down4(self):
        u = self['uup4']
        return ein('abcd,b,d->ac', self['st_Weyl_down4'], u, u)

    def k_bweyl_u_down4(self):
        u = self['uup4']
        return ein('abef,b,f->ae', self._dualC(), u, u)

    # ================================================================ kinematics
    def k_st_covd_udown4(self):
        self.need4()
        u = self['udown4']
        return covd(self['st_Gamma_udd4'], u, D4(u), 'd')

    def k_accelerationdown4(self): return ein('a,ab->b', self['uup4'], self['st_covd_udown4'])
    def k_accelerationup4(self): return ein('ab,b->a', self['gup4'], self['accelerationdown4'])
    def k_s_covd_udown4(self): return ein('ab,ac->bc', self['hmixed4'], self['st_covd_udown4'])

    def k_thetadown4(self):
        s = self['s_covd_udown4']
        return (s + s.T) * Fraction(1, 2)

    def k_omegadown4(self):
        s = self['s_covd_udown4']
        return (s - s.T) * Fraction(1, 2)

    def k_theta(self): return ein('ab,ab->', self['hup4'], self['thetadown4'])

    def k_sheardown4(self):
        return self['thetadown4'] - self['hdown4'] * self['theta'] * Fraction(1, 3)

    def k_shear2(self):
        h = self['hup4']
        s = self['sheardown4']
        return ein('ai,bj,ab,ij->', h, h, s, s) * Fraction(1, 2)

    def k_omega2(self):
        h = self['hup4']
        s = self['omegadown4']
        return ein('ai,bj,ab,ij->', h, h, s, s) * Fraction(1, 2)

    def k_dtconserved(self):
        # only specified for the default (vanishing) fluid: all conserved densities are 0
        if self.mode != 'onshell' or (self.fluid is not None and not self['rho0'].is_identically_zero()):
            raise SpecUnavailable('dtconserved needs d/dt of the fluid variables')
        z = J.const(self.F, 0)
        return (z, z, arr([z, z, z]))

    def k_Hamiltonian_norm(self):
        return self['Hamiltonian'] / self['Hamiltonian_Escale']

    def _mnorm(self, key):
        return self[key] / self['Momentum_Escale']

    def k_Momentumx_norm(self): return self._mnorm('Momentumx')
    def k_Momentumy_norm(self): return self._mnorm('Momentumy')
    def k_Momentumz_norm(self): return self._mnorm('Momentumz')
    def k_Momentumdownx_norm(self): return self._mnorm('Momentumdownx')
    def k_Momentumdowny_norm(self): return self._mnorm('Momentumdowny')
    def k_Momentumdownz_norm(self): return self._mnorm('Momentumdownz')

    # ================================================================== tetrads
    def _gram_schmidt(self, vecs, metric, first=None):
        """orthonormalise w.r.t. metric (spacelike vectors; first = unit timelike e0 or None)."""
        out = []
        for v in vecs:
            w = v
            if first is not None:
                w = w + first * ein('a,b,ab->', first, v, metric)
            for e in out:
                w = w - e * ein('a,b,ab->', e, v, metric)
            n2 = ein('a,b,ab->', w, w, metric)
            out.append(w / n2.sqrt())
        return out

    def tetrad_vectors(self):
        """an orthonormal tetrad satisfying the contract of tetrad_base (any such tetrad
        must make the callers correct): random seed vectors, Gram-Schmidt."""
        if 'tetrad' in self.memo:
            return self.memo['tetrad']
        F, rng = self.F, self.rng
        z = J.const(F, 0)
        for _ in range(200):
            try:
                if self.tetrad == 'quasi-Kinnersley':
                    seeds = [arr([J.rand(F, 0, rng) for _ in R3]) for _ in R3]
                    tri = self._gram_schmidt(seeds, self['gammadown3'])
                    e0 = arr([J.const(F, 1), z, z, z])
                    es = [arr([z] + list(t)) for t in tri]
                else:
                    e0 = self['uup4']
                    seeds = [arr([J.rand(F, 0, rng) for _ in R4]) for _ in R3]
                    es = self._gram_schmidt(seeds, self['gdown4'], first=e0)
                self.memo['tetrad'] = (e0, es[0], es[1], es[2])
                return self.memo['tetrad']
            except NeedResample:
                continue
        raise Undecided('could not sample an orthonormal tetrad')

    def null_vectors(self):
        """(l, k, m, mbar) from the tetrad: k,l = (e0 +- e1)/sqrt2, m, mbar = (e2 +- i e3)/sqrt2."""
        if 'null' in self.memo:
            return self.memo['null']
        e0, e1, e2, e3 = self.tetrad_vectors()
        r2 = 1 / J.const(self.F, 2).sqrt()
        k = (e0 + e1) * r2
        l = (e0 - e1) * r2
        m = omap(lambda a: a, arr([CJ(e2[i] * r2, e3[i] * r2) for i in R4]))
        mb = arr([CJ(e2[i] * r2, -(e3[i] * r2)) for i in R4])
        self.memo['null'] = (l, k, m, mb)
        return self.memo['null']

    def k_Weyl_Psi(self):
        if 'Weyl_Psi4r' in self.inputs:
            return [None, None, None, None,
                    CJ(self.inputs['Weyl_Psi4r'], self.inputs['Weyl_Psi4i'])]
        l, k, m, mb = self.null_vectors()
        C = self['st_Weyl_down4']
        con = lambda a, b, c, d: ein('abcd,a,b,c,d->', C, a, b, c, d)
        # Newman-Penrose scalars (Alcubierre 8.6.x naming: k outgoing, l ingoing)
        return [con(k, m, k, m), con(k, l, k, m), con(k, m, mb, l), con(k, l, mb, l), con(l, mb, l, mb)]

    def k_Weyl_invariants(self):
        P = self['Weyl_Psi']
        I = P[0] * P[4] - 4 * P[1] * P[3] + 3 * P[2] * P[2]
        Jm = leibniz_det(arr([[P[4], P[3], P[2]], [P[3], P[2], P[1]], [P[2], P[1], P[0]]]))
        L = P[2] * P[4] - P[3] * P[3]
        K = P[1] * P[4] * P[4] - 3 * P[4] * P[3] * P[2] + 2 * P[3] * P[3] * P[3]
        N = 12 * L * L - P[4] * P[4] * I
        return {'I': I, 'J': Jm, 'L': L, 'K': K, 'N': N}

    # ========================================================= helper contracts
    def covd3(self, f, idx):
        f = np.asarray(f, dtype=object)
        if f.ndim == 0:
            return D3(f[()])
        return covd(self['s_Gamma_udd3'], f, D3(f), idx)

    def covd4(self, f, dtf, idx):
        f = np.asarray(f, dtype=object)
        dtf = np.asarray(dtf, dtype=object)
        if f.ndim == 0:
            return arr([dtf[()]] + list(D3(f[()])))
        Df = arr([dtf] + list(D3(f)))
        return covd(self['st_Gamma_udd4'], f, Df, idx)

    def lie_beta(self, f, idx, weight=0, dim=3):
        """L_beta f for f with index string idx ('u'/'d' per index) in dim 3 or 4
        (beta^mu = (0, beta^i)); + weight * f * d_s beta^s."""
        f = np.asarray(f, dtype=object)
        b3 = self['betaup3']
        if dim == 3:
            bb = b3
            Db = D3(b3)                       # Db[i,j] = d_i beta^j
            Df = D3(f)
            off = 0
        else:
            bb = arr([J.const(self.F, 0)] + list(b3))
            Db = ozeros(4, 4)
            Db[0, 1:] = self['dtbetaup3']
            Db[1:, 1:] = D3(b3)
            Df = ozeros(*((4,) + f.shape))
            Df[1:] = D3(f)                    # the d_t f term is multiplied by beta^t = 0
            off = 1
        n = dim
        out = ozeros(*f.shape) if f.shape else 0
        rank = len(idx)
        for I in itertools.product(range(n), repeat=rank):
            t = 0
            for s in range(off, n):
                t = t + bb[s] * Df[(s,) + I]
            for pos, ud in enumerate(idx):
                for s in range(n):
                    Is = I[:pos] + (s,) + I[pos + 1:]
                    if ud == 'u':
                        t = t - f[Is] * Db[s, I[pos]]
                    else:
                        t = t + f[Is] * Db[I[pos], s]
            if rank:
                out[I] = t
            else:
                out = t
        if weight != 0:
            divb = sum(dd(b3[i], i + 1) for i in R3)
            out = out + f * divb * weight
        return out

    def s_to_st(self, f3):
        """spatial tensor f_ij -> spacetime f_{mu nu} = gamma_mu^i gamma_nu^j f_ij with
        f_{0 0} = beta^i beta^j f_ij, f_{0 k} = beta^i f_ik."""
        b = self['betaup3']
        f4 = ozeros(4, 4)
        f4[1:, 1:] = f3
        f4[0, 0] = ein('i,j,ij->', b, b, f3)
        f4[0, 1:] = ein('i,ik->k', b, f3)
        f4[1:, 0] = ein('i,ki->k', b, f3)
        return f4
