"""Per-function obligations: real function body vs. Spec, callees answered by contract.

`check_function(env, U, name, present, opts)` runs the real (re-bound) AurelCore
method `name` on a `Stub` for self.  The stub answers `self[k]` with Spec_k(U)
(never by running the callee), helper methods with their spec versions, and
`k in self.data` from the enumerated cache state `present`.  All arrays handed
to the function are read-only: an in-place update raises inside numpy and is
reported as the failed frame obligation.
"""
import itertools
import time
import traceback
import numpy as _np

from .jets import J, CJ, same, Undecided, NeedResample, Poison, omap
from .e1 import tens, untens, discover_guards
from .universe import SpecUnavailable, D3, arr, dd, ozeros


class FrameViolation(Exception):
    pass


class FDStub:
    """contract of the finite-difference layer (proved in C07): D_x = d/dx on jets."""

    def __init__(self, U, env):
        self.U = U
        self.param = dict(Nx=1, Ny=1, Nz=1, dx=1.0, dy=1.0, dz=1.0, xmin=0.0, ymin=0.0, zmin=0.0)
        self.xmin = self.ymin = self.zmin = self.xmax = self.ymax = self.zmax = 0.0
        self.Nx = self.Ny = self.Nz = 1
        c = U.coords
        self.x, self.y, self.z = (tens(c[0]), tens(c[1]), tens(c[2]))
        self.cartesian_coords = tens(c)
        self.mask_len = 0

    def _d(self, f, ax):
        f = _np.asarray(f, dtype=object)
        if f.shape != (1, 1, 1):
            raise Undecided(f'd3x/y/z applied to shape {f.shape} (expected a scalar field)')
        return dd(f, ax)

    def d3x(self, f): return self._d(f, 1)
    def d3y(self, f): return self._d(f, 2)
    def d3z(self, f): return self._d(f, 3)

    def _grad(self, f, rank):
        f = _np.asarray(f, dtype=object)
        if f.shape[-3:] != (1, 1, 1) or f.ndim != rank + 3:
            raise Undecided(f'rank-{rank} derivative applied to shape {f.shape}')
        return _np.array([dd(f, 1), dd(f, 2), dd(f, 3)], dtype=object)

    def d3_scalar(self, f): return self._grad(f, 0)
    def d3_rank1tensor(self, f): return self._grad(f, 1)
    def d3_rank2tensor(self, f): return self._grad(f, 2)
    def d3_rank3tensor(self, f): return self._grad(f, 3)
    def d3x_rank1tensor(self, f): return self._grad(f, 1)[0]
    def d3y_rank1tensor(self, f): return self._grad(f, 1)[1]
    def d3z_rank1tensor(self, f): return self._grad(f, 1)[2]
    def d3x_rank2tensor(self, f): return self._grad(f, 2)[0]
    def d3y_rank2tensor(self, f): return self._grad(f, 2)[1]
    def d3z_rank2tensor(self, f): return self._grad(f, 2)[2]
    def d3x_rank3tensor(self, f): return self._grad(f, 3)[0]
    def d3y_rank3tensor(self, f): return self._grad(f, 3)[1]
    def d3z_rank3tensor(self, f): return self._grad(f, 3)[2]

    def cartesian_to_spherical(self, x, y, z):
        r = omap(lambda e: e.sqrt(), x * x + y * y + z * z)
        return r, None, None


class DataView:
    """`self.data` as seen by the function: membership = enumerated cache state."""

    def __init__(self, stub, present):
        self._s = stub
        self._present = set(present)

    def __contains__(self, k):
        self._s.membership_tests.append(k)
        return k in self._present

    def keys(self):
        return self

    def __iter__(self):
        return iter(self._present)

    def __getitem__(self, k):
        if k not in self._present:
            raise KeyError(k)
        return self._s._serve(k)

    def get(self, k, d=None):
        return self._s._serve(k) if k in self._present else d

    def __setitem__(self, k, v):
        raise FrameViolation(f'assignment to self.data[{k!r}] inside a quantity method')

    def __delitem__(self, k):
        raise FrameViolation(f'deletion of self.data[{k!r}] inside a quantity method')


class StubLimit(Undecided):
    """the stub was asked for something it does not model: the obligation is undecided, not refuted"""


class Stub:
    """contract stub for `self`."""

    def __init__(self, env, U, present=(), opts=None, under_test=None):
        self.env, self.U = env, U
        self.reads, self.membership_tests, self.helper_calls = [], [], []
        self._served = {}
        self.data = DataView(self, present)
        self.fd = FDStub(U, env)
        self.param = self.fd.param
        self.data_shape = (1, 1, 1)
        self.kappa = U.kappa
        self.Lambda = U.Lambda
        self.vacuum = U.vacuum
        self.tetrad = U.tetrad
        self.verbose = False
        self.center = (0.0, 0.0, 0.0)
        self.under_test = under_test
        for k, v in (opts or {}).items():
            setattr(self, k, v)

    def myprint(self, msg):
        pass

    def __getattr__(self, name):
        """a method of the real class that has no contract here (e.g. a private helper introduced by a refactoring):
        its REAL body runs with this stub as `self` -- the caller is then checked against the callee's body instead of its
        contract (less modular, still sound).  Anything else unknown is a limit of the stub, never a verdict on the code."""
        if name.startswith('__'):
            raise AttributeError(name)
        env = self.__dict__.get('env')
        f = env.Core.__dict__.get(name) if env is not None else None
        import types as _types
        if isinstance(f, _types.FunctionType):
            self.__dict__.setdefault('inlined', []).append(name)
            return _types.MethodType(f, self)
        raise StubLimit(f"the contract stub has no attribute '{name}'")

    def _serve(self, k):
        if k not in self._served:
            v = self.U[k]
            self._served[k] = _to_code(v)
        return self._served[k]

    def __getitem__(self, k):
        self.reads.append(k)
        return self._serve(k)

    # --- helper methods: contracts (spec versions)
    def s_covd(self, f, indexing):
        self.helper_calls.append(('s_covd', indexing))
        if not isinstance(indexing, str) or any(ch not in 'ud' for ch in indexing) or len(indexing) > 2:
            raise ValueError('indexing')
        return fresh(self.U.covd3(untens(f), indexing))

    def st_covd(self, f, dtf, indexing):
        self.helper_calls.append(('st_covd', indexing))
        return fresh(self.U.covd4(untens(f), untens(dtf), indexing))

    def s_div(self, f, indexing):
        self.helper_calls.append(('s_div', indexing))
        return fresh(spec_s_div(self.U, untens(f), indexing))

    def s_curl(self, f, indexing):
        self.helper_calls.append(('s_curl', indexing))
        return fresh(spec_s_curl(self.U, untens(f)))

    def Lie_beta(self, f, indexing, weight=0):
        self.helper_calls.append(('Lie_beta', indexing, weight))
        dim, idx = parse_lie_indexing(indexing)
        return fresh(self.U.lie_beta(untens(f), idx, weight, dim))

    def s_to_st(self, f):
        return fresh(self.U.s_to_st(untens(f)))

    def trace3(self, f):
        return fresh(_np.einsum('ij,ij->', self.U['gammaup3'], untens(f)))

    def trace4(self, f):
        return fresh(_np.einsum('ij,ij->', self.U['gup4'], untens(f)))

    def tracefree3(self, f):
        f = untens(f)
        from fractions import Fraction
        tr = _np.einsum('ij,ij->', self.U['gammaup3'], f)
        return fresh(f - self.U['gammadown3'] * tr * Fraction(1, 3))

    def magnitude3(self, f):
        from fractions import Fraction
        f = untens(f)
        gu = self.U['gammaup3']
        return fresh(_np.einsum('ab,ij,ai,bj->', f, f, gu, gu) * Fraction(1, 2))

    def magnitude4(self, f):
        from fractions import Fraction
        f = untens(f)
        gu = self.U['gup4']
        return fresh(_np.einsum('ab,ij,ai,bj->', f, f, gu, gu) * Fraction(1, 2))

    def vector_inner_product3(self, a, b):
        return fresh(_np.einsum('a,b,ab->', untens(a), untens(b), self.U['gammadown3']))

    def vector_inner_product4(self, a, b):
        return fresh(_np.einsum('a,b,ab->', untens(a), untens(b), self.U['gdown4']))

    def norm3(self, a):
        v = _np.einsum('a,b,ab->', untens(a), untens(a), self.U['gammadown3'])
        return fresh(abs(v).sqrt())

    def norm4(self, a):
        v = _np.einsum('a,b,ab->', untens(a), untens(a), self.U['gdown4'])
        return fresh(abs(v).sqrt())

    def kronecker_delta3(self):
        k = ozeros(3, 3)
        for i in range(3):
            k[i, i] = 1
        return fresh(k)

    def kronecker_delta4(self):
        k = ozeros(4, 4)
        for i in range(4):
            k[i, i] = 1
        return fresh(k)

    def levicivita_down3(self): return fresh(self.U['levicivita_down3'])
    def levicivita_down4(self): return fresh(self.U['levicivita_down4'])

    def levicivita_symbol_down3(self):
        from .universe import eps_symbol
        return fresh(eps_symbol(3))

    def levicivita_symbol_down4(self):
        from .universe import eps_symbol
        return fresh(eps_symbol(4))

    def null_ray_expansion(self, Fs, direction='out'):
        return fresh(spec_null_ray_expansion(self.U, untens(Fs), direction))

    def null_vector_base(self):
        return tuple(tens(v) for v in self.U.null_vectors())

    def tetrad_base(self):
        return tuple(tens(v) for v in self.U.tetrad_vectors())


def fresh(a):
    """a value returned by a callee *method call*: a new array the caller owns."""
    a = _np.asarray(a, dtype=object)
    return a.reshape(a.shape + (1, 1, 1)).copy()


def _to_code(v):
    if isinstance(v, (list, tuple)):
        return type(v)(_to_code(e) for e in v)
    if isinstance(v, dict):
        return {k: _to_code(e) for k, e in v.items()}
    if v is None:
        return None
    return tens(v)


def parse_lie_indexing(indexing):
    if indexing == '':
        return 3, ''
    s, idx = indexing.split('_')
    return (3 if s == 's' else 4), idx


def spec_s_div(U, f, indexing):
    cd = U.covd3(f, indexing)
    gu = U['gammaup3']
    E = _np.einsum
    if indexing == 'u':
        return E('aa->', cd)
    if indexing == 'd':
        return E('ab,ab->', gu, cd)
    if indexing in ('uu', 'ud'):
        return E('aab->b', cd)
    if indexing == 'du':
        return E('aba->b', cd)
    if indexing == 'dd':
        return E('ab,abc->c', gu, cd)
    raise ValueError(indexing)


def spec_s_curl(U, f):
    """(curl f)_{ab} = sym_{ab} eps^{cd}_a D_c f_{bd},  eps_{ijk} = sqrt(gamma) [ijk]."""
    from fractions import Fraction
    gu = U['gammaup3']
    eps = U['levicivita_down3']
    eps_uud = _np.einsum('ce,df,efa->cda', gu, gu, eps)
    cd = U.covd3(f, 'dd')
    c = _np.einsum('cda,cbd->ab', eps_uud, cd)
    return (c + c.T) * Fraction(1, 2)


def spec_null_ray_expansion(U, Fs, direction):
    """Theta_(out/in) = +/- D_i s^i + K_ij s^i s^j - K, s^i = gamma^{ij} d_j F / |dF|."""
    gu = U['gammaup3']
    dF = D3(Fs)
    mag = _np.einsum('ij,i,j->', gu, dF, dF).sqrt()
    s = _np.einsum('ij,j->i', gu, dF) / mag
    div = spec_s_div(U, s, 'u')
    Kss = _np.einsum('ij,i,j->', U['Kdown3'], s, s)
    if direction == 'out':
        return div + Kss - U['Ktrace']
    if direction == 'in':
        return -div + Kss - U['Ktrace']
    raise ValueError(direction)


# ---------------------------------------------------------------------------
def untens_tree(v):
    """code-convention value (trailing (1,1,1) axes; lists / tuples / dicts of them) -> spec convention"""
    if isinstance(v, (list, tuple)):
        return type(v)(untens_tree(e) for e in v)
    if isinstance(v, dict):
        return {k: untens_tree(e) for k, e in v.items()}
    return None if v is None else untens(v)


def compare(code, spec, path=''):
    """list of (component, detail) where code and spec differ."""
    bad = []
    if isinstance(spec, (list, tuple)):
        if not isinstance(code, (list, tuple)) or len(code) != len(spec):
            return [(path, 'sequence length/type differs')]
        for i, (c, s) in enumerate(zip(code, spec)):
            bad += compare(c, s, f'{path}[{i}]')
        return bad
    if isinstance(spec, dict):
        if not isinstance(code, dict) or set(code) != set(spec):
            return [(path, 'dict keys differ')]
        for k in spec:
            bad += compare(code[k], spec[k], f'{path}[{k!r}]')
        return bad
    if spec is None:
        return [] if code is None else [(path, 'expected None')]
    c = untens(code)
    s = _np.asarray(spec, dtype=object)
    if c.shape != s.shape:
        return [(path, f'shape {c.shape} != {s.shape}')]
    for idx in _np.ndindex(*s.shape) if s.shape else [()]:
        cv, sv = (c[idx], s[idx]) if s.shape else (c[()], s[()])
        if not same(cv, sv):
            bad.append((path + str(list(idx)), 'value'))
    return bad


def guard_paths(env, name, U, fixed_present=()):
    """all cache states of the guard keys of function `name` that are reachable when
    the inputs U.inputs are frozen: input keys are always present."""
    g = discover_guards(getattr(env.real_core.AurelCore, name))
    keys = sorted(g['keys'])
    free = [k for k in keys if k not in U.inputs]
    paths = []
    for bits in itertools.product([False, True], repeat=len(free)):
        present = set(U.inputs) | set(fixed_present) | {k for k, b in zip(free, bits) if b}
        paths.append(present)
    return g, paths


def run_function(env, U, name, present, args=(), kwargs=None, opts=None):
    """-> (status, detail, stub).  status: ok | mismatch | frame | raised | undecided | nospec"""
    stub = Stub(env, U, present, opts, under_test=name)
    f = env.method(name)
    try:
        res = f(stub, *args, **(kwargs or {}))
    except (Undecided, SpecUnavailable, NeedResample):
        raise
    except FrameViolation as e:
        return 'frame', str(e), stub, None
    except ValueError as e:
        if 'read-only' in str(e) or 'not writeable' in str(e) or 'WRITEABLE' in str(e):
            return 'frame', 'in-place write into an array owned by the cache/caller: ' + str(e), stub, None
        return 'raised', f'{type(e).__name__}: {e}', stub, None
    except Exception as e:
        return 'raised', f'{type(e).__name__}: {e}\n' + traceback.format_exc(limit=3), stub, None
    return 'ok', '', stub, res
