"""E2: verification conditions for integer / array-index / map code.

The real code objects of /repo are executed on symbolic values backed by z3:
  Z      scalar (Int / Real / Bool expression); `if z:` forks the path
  SArr   n-d array as (shape, index function); slicing / negative indices / concatenate /
         transpose / stacking follow numpy's semantics as index maps (A2)
  generic iteration: `for i in np.arange(lo, hi)` with symbolic bounds runs the body once
         for a universally quantified i in [lo, hi) (sound for map-style comprehensions,
         which is checked: the only consumer accepted is np.array([...]) of that list)
Paths are enumerated by re-execution with a decision log; every obligation is recorded
with its path condition and discharged by z3 (unsat of pc & not goal), cvc5 as second
back end for `unknown`.  Python integers are mathematical; float literals are rationals (A1).
"""
import os
import itertools
import time
from fractions import Fraction
import z3


class PathAbort(Exception):
    pass


class Infeasible(Exception):
    pass


class PathEnd(Exception):
    """deliberate end of a path (e.g. after the inductive step of a loop); obligations are kept"""


class Ctx:
    cur = None

    def __init__(self, decisions=()):
        self.decisions = list(decisions)
        self.pos = 0
        self.pc = []
        self.alts = []
        self.obls = []        # (name, goal, pc snapshot)
        self.gen_pending = None
        self.fresh = itertools.count()
        self.timeout_ms = 20000

    def assume(self, c):
        self.pc.append(c)

    def sat(self, extra):
        s = z3.Solver()
        s.set('timeout', self.timeout_ms)
        s.add(*self.pc)
        s.add(extra)
        return s.check()

    def branch(self, cond):
        cond = z3.simplify(cond)
        if z3.is_true(cond):
            return True
        if z3.is_false(cond):
            return False
        if self.pos < len(self.decisions):
            d = self.decisions[self.pos]
        else:
            ct = self.sat(cond) != z3.unsat
            cf = self.sat(z3.Not(cond)) != z3.unsat
            if ct and cf:
                d = True
                self.alts.append(self.decisions[:self.pos] + [False])
            elif ct:
                d = True
            elif cf:
                d = False
            else:
                raise Infeasible()
            self.decisions.append(d)
        self.pos += 1
        self.pc.append(cond if d else z3.Not(cond))
        return d

    def require(self, name, goal):
        self.obls.append((name, goal, list(self.pc)))

    def new_int(self, base='k'):
        return z3.Int(f'{base}!{next(self.fresh)}')


def ctx():
    return Ctx.cur


def to_z3(v, real=False):
    if isinstance(v, Z):
        return v.e
    if isinstance(getattr(v, 'z', None), Z):      # typed wrappers (float / int / ndarray subclasses) carrying a Z
        return v.z.e
    if isinstance(v, bool):
        return z3.BoolVal(v)
    if type(v).__module__ == 'numpy' and hasattr(v, 'item') and getattr(v, 'ndim', 1) == 0:
        v = v.item()                                # numpy scalar -> python scalar
    if isinstance(v, int):
        return z3.RealVal(v) if real else z3.IntVal(v)
    if isinstance(v, Fraction):
        return z3.RealVal(str(v.numerator) + '/' + str(v.denominator))
    if isinstance(v, float):
        f = Fraction(v).limit_denominator(10 ** 6)
        if abs(float(f) - v) > 4e-16 * abs(v):          # relative: a tiny constant (machine epsilon) must not become 0
            f = Fraction(v)
        return z3.RealVal(str(f.numerator) + '/' + str(f.denominator))
    if isinstance(v, z3.ExprRef):
        return v
    raise TypeError(f'cannot turn {type(v)} into a z3 term')


def _arith(a, b, op):
    ea, eb = to_z3(a), to_z3(b)
    if z3.is_int(ea) and z3.is_real(eb):
        ea = z3.ToReal(ea)
    if z3.is_real(ea) and z3.is_int(eb):
        eb = z3.ToReal(eb)
    return ea, eb


class Z:
    """symbolic scalar"""
    __slots__ = ('e',)

    def __init__(self, e):
        self.e = e

    @staticmethod
    def int(name):
        return Z(z3.Int(name))

    @staticmethod
    def real(name):
        return Z(z3.Real(name))

    def _bin(self, o, f, rev=False):
        if isinstance(o, (SArr,)):
            return NotImplemented
        try:
            a, b = _arith(o, self, None) if rev else _arith(self, o, None)
        except TypeError:
            return NotImplemented
        return Z(f(a, b))

    def __add__(self, o): return self._bin(o, lambda a, b: a + b)
    def __radd__(self, o): return self._bin(o, lambda a, b: a + b, True)
    def __sub__(self, o): return self._bin(o, lambda a, b: a - b)
    def __rsub__(self, o): return self._bin(o, lambda a, b: a - b, True)
    def __mul__(self, o): return self._bin(o, lambda a, b: a * b)
    def __rmul__(self, o): return self._bin(o, lambda a, b: a * b, True)

    def __truediv__(self, o):
        return self._bin(o, lambda a, b: (z3.ToReal(a) if z3.is_int(a) else a) / (z3.ToReal(b) if z3.is_int(b) else b))

    def __rtruediv__(self, o):
        return self._bin(o, lambda a, b: (z3.ToReal(a) if z3.is_int(a) else a) / (z3.ToReal(b) if z3.is_int(b) else b), True)

    def __floordiv__(self, o): return self._bin(o, lambda a, b: a / b)   # z3 Int division = floor for positive divisor
    def __mod__(self, o): return self._bin(o, lambda a, b: a % b)
    def __neg__(self): return Z(-self.e)
    def __pos__(self): return self
    def __lt__(self, o): return self._bin(o, lambda a, b: a < b)
    def __le__(self, o): return self._bin(o, lambda a, b: a <= b)
    def __gt__(self, o): return self._bin(o, lambda a, b: a > b)
    def __ge__(self, o): return self._bin(o, lambda a, b: a >= b)
    def __eq__(self, o): return self._bin(o, lambda a, b: a == b)
    def __ne__(self, o): return self._bin(o, lambda a, b: a != b)
    __hash__ = None

    def __bool__(self):
        e = self.e
        if not z3.is_bool(e):
            e = (e != 0)
        return ctx().branch(e)

    def __abs__(self):
        return Z(z3.If(self.e >= 0, self.e, -self.e))

    def __repr__(self):
        return f'Z({self.e})'

    shape = ()


def zand(*a):
    return z3.And(*[to_z3(x) for x in a])


# ---------------------------------------------------------------------------
def ilen(x):
    import numpy
    if isinstance(x, numpy.integer):
        return int(x)
    return x.e if isinstance(x, Z) else x


def lt0(e):
    """python truth of e < 0 for int or z3 expr; forks if symbolic"""
    if isinstance(e, int):
        return e < 0
    return ctx().branch(e < 0)


class DT(str):
    """dtype of a symbolic array: 'float' | 'int', with the attributes of a numpy dtype that code inspects"""

    @property
    def kind(self):
        return 'i' if self == 'int' else 'f'

    @property
    def name(self):
        return 'int64' if self == 'int' else 'float64'


class SArr:
    """symbolic array: shape (ints or z3 Int terms), fn(index tuple) -> element (Z / number)."""

    dtype = DT('float')      # 'float' | 'int': assignment into an int array truncates (numpy's unsafe cast on __setitem__)

    def __init__(self, shape, fn, name='arr', dtype=None):
        self.shape = tuple(ilen(s) for s in shape)
        self.fn = fn
        self.name = name
        if dtype is not None:
            self.dtype = DT(dtype)

    def __setitem__(self, key, val):
        """a[lo:hi, ...] = val along leading axes (step 1), a[k] = val: the array becomes the piecewise function"""
        keys = key if isinstance(key, tuple) else (key,)
        if any(k is Ellipsis for k in keys):
            if keys != (Ellipsis,):
                raise PathAbort('assignment with an ellipsis mixed with other indices not modelled')
            keys = ()
        nd = len(self.shape)
        if len(keys) > nd:
            raise IndexError('too many indices for array')
        bounds = []          # per axis: ('slice', lo, hi) | ('index', k)
        for ax, k in enumerate(keys):
            n = self.shape[ax]
            if isinstance(k, slice):
                if k.step not in (None, 1):
                    raise PathAbort('slice assignment with a step not modelled')
                bounds.append(('slice', self._norm(k.start, n, 0), self._norm(k.stop, n, n)))
            else:
                kk = ilen(k)
                if isinstance(kk, int) and kk < 0:
                    kk = to_len(n) + kk if not isinstance(n, int) else n + kk
                bounds.append(('index', kk, None))
        old = self.fn
        trunc = self.dtype == 'int'

        def value_at(idx):
            sub = tuple((idx[ax] - b[1]) if b[0] == 'slice' else None for ax, b in enumerate(bounds))
            sub = tuple(x for x in sub if x is not None) + tuple(idx[len(bounds):])
            if isinstance(val, SArr):
                off = len(sub) - len(val.shape)
                if off < 0:
                    raise PathAbort('assigned array has more axes than the target region')
                v = val.fn(tuple(sub[off:]))
            else:
                v = val
            e = to_z3(v)
            if trunc and not z3.is_int(e):
                e = z3.If(e >= 0, z3.ToInt(e), -z3.ToInt(-e))       # truncation toward zero, as numpy casts on assignment
                e = z3.ToReal(e)
            return e

        def fn(idx):
            conds = []
            for ax, b in enumerate(bounds):
                i = to_z3(idx[ax])
                conds.append(z3.And(i >= to_z3(b[1]), i < to_z3(b[2])) if b[0] == 'slice' else i == to_z3(b[1]))
            cond = z3.simplify(z3.And(*conds)) if conds else z3.BoolVal(True)
            if z3.is_true(cond):
                return Z(value_at(idx))
            o = to_z3(unwrap(old(idx)))
            if z3.is_false(cond):
                return Z(o)
            nv = value_at(idx)
            if z3.is_int(o) and not z3.is_int(nv):
                o = z3.ToReal(o)
            if z3.is_int(nv) and not z3.is_int(o):
                nv = z3.ToReal(nv)
            return Z(z3.If(cond, nv, o))
        self.fn = fn

    @property
    def T(self):
        return self.transpose()

    def swapaxes(self, i, j):
        perm = list(range(len(self.shape)))
        perm[i], perm[j] = perm[j], perm[i]
        return self.transpose(tuple(perm))

    @property
    def ndim(self):
        return len(self.shape)

    def __len__(self):
        n = self.shape[0]
        if not isinstance(n, int):
            raise PathAbort('len() of an axis with symbolic extent')
        return n

    def __bool__(self):
        raise PathAbort('truth value of a symbolic array')

    def __iter__(self):
        n = self.shape[0]
        if not isinstance(n, int):
            raise PathAbort('iteration over an array of symbolic length (needs a loop contract or np.arange)')
        return iter([self[k] for k in range(n)])

    def at(self, idx):
        idx = tuple(ilen(i) for i in idx)
        assert len(idx) == len(self.shape), (idx, self.shape)
        return self.fn(idx)

    # --- indexing along axis 0 (and tuples)
    def __getitem__(self, key):
        if isinstance(key, tuple):
            if all(isinstance(k, slice) for k in key):
                out = self
                for ax, k in enumerate(key):
                    out = out.moveaxis0(ax)._slice(k).unmoveaxis0(ax)
                return out
            if any(isinstance(k, slice) for k in key):
                raise PathAbort('mixed integer/slice tuple index not modelled')
            out = self
            for k in key:
                out = out[k]
            return out
        n = self.shape[0]
        if isinstance(key, slice):
            return self._slice(key)
        k = ilen(key)
        if isinstance(k, int) and isinstance(n, int):
            if not -n <= k < n:
                raise IndexError(f'index {k} out of bounds for axis 0 with size {n}')
            if k < 0:
                k += n
        elif isinstance(k, int) and k < 0:
            ctx().require(f'{self.name}: index {k} in bounds', n >= -k)
            k = n + k
        else:
            # symbolic index: must be a true in-range index (a negative value would silently wrap)
            ctx().require(f'{self.name}: read index {z3.simplify(z3.IntVal(k) if isinstance(k, int) else k)} '
                          f'within [0, {n})', z3.And(to_z3(k) >= 0, to_z3(k) < to_z3(n)))
        if len(self.shape) == 1:
            return wrap(self.fn((k,)))
        return SArr(self.shape[1:], lambda idx, k=k: self.fn((k,) + idx), self.name, dtype=self.dtype)

    def _norm(self, v, n, default):
        """python slice bound normalisation for step +1"""
        if v is None:
            return default
        v = ilen(v)
        if isinstance(v, int) and isinstance(n, int):
            if v < 0:
                v = max(v + n, 0)
            return min(v, n)
        e = to_z3(v)
        nn = to_z3(n)
        return z3.simplify(z3.If(e < 0, z3.If(e + nn < 0, 0, e + nn), z3.If(e > nn, nn, e)))

    def _slice(self, sl):
        n = self.shape[0]
        step = sl.step
        if step is None or step == 1:
            lo = self._norm(sl.start, n, 0)
            hi = self._norm(sl.stop, n, n)
            if isinstance(lo, int) and isinstance(hi, int):
                ln = max(hi - lo, 0)
            else:
                ln = z3.simplify(z3.If(to_z3(hi) - to_z3(lo) > 0, to_z3(hi) - to_z3(lo), 0))
            return SArr((ln,) + self.shape[1:], lambda idx, lo=lo: self.fn((idx[0] + lo,) + idx[1:]) if not isinstance(idx[0], int) or not isinstance(lo, int) else self.fn((idx[0] + lo,) + idx[1:]), self.name, dtype=self.dtype)
        if step == -1 and sl.start is None and sl.stop is None:
            return SArr(self.shape, lambda idx: self.fn((to_len(n) - 1 - idx[0],) + idx[1:]), self.name, dtype=self.dtype)
        raise PathAbort(f'slice step {step} not modelled')

    def moveaxis0(self, ax):
        if ax == 0:
            return self
        perm = (ax,) + tuple(i for i in range(self.ndim) if i != ax)
        return self.transpose(perm)

    def unmoveaxis0(self, ax):
        if ax == 0:
            return self
        perm = tuple(range(1, ax + 1)) + (0,) + tuple(range(ax + 1, self.ndim))
        return self.transpose(perm)

    def __abs__(self):
        return SArr(self.shape, lambda idx: abs(wrap(self.fn(idx))), self.name, dtype=self.dtype)

    def transpose(self, *perm):
        # numpy accepts a.transpose(), a.transpose((2, 1, 0)) and a.transpose(2, 1, 0)
        if len(perm) == 1 and isinstance(perm[0], (tuple, list)):
            perm = tuple(perm[0])
        elif len(perm) == 0 or perm == (None,):
            perm = tuple(reversed(range(len(self.shape))))
        shp = tuple(self.shape[p] for p in perm)

        def fn(idx):
            src = [None] * len(perm)
            for newax, oldax in enumerate(perm):
                src[oldax] = idx[newax]
            return self.fn(tuple(src))
        return SArr(shp, fn, self.name, dtype=self.dtype)

    # --- elementwise arithmetic
    def _ew(self, o, f, rev=False):
        # dtype of an arithmetic result: integer only when both operands are integer-typed (division is handled by the caller
        # of _ew for truediv, which always gives floats)
        def _is_int_operand(x):
            if isinstance(x, SArr):
                return x.dtype == 'int'
            if isinstance(x, bool):
                return True
            if isinstance(x, int):
                return True
            if isinstance(x, Z):
                return z3.is_int(x.e)
            return False
        dt = 'int' if (self.dtype == 'int' and _is_int_operand(o)) else 'float'
        if isinstance(o, SArr):
            if len(o.shape) != len(self.shape):
                raise PathAbort('broadcast between different ranks not modelled')
            return SArr(self.shape, lambda idx: f(wrap(self.fn(idx)), wrap(o.fn(idx))), self.name, dtype=dt)
        if rev:
            return SArr(self.shape, lambda idx: f(o, wrap(self.fn(idx))), self.name, dtype=dt)
        return SArr(self.shape, lambda idx: f(wrap(self.fn(idx)), o), self.name, dtype=dt)

    def __add__(self, o): return self._ew(o, lambda a, b: a + b)
    def __radd__(self, o): return self._ew(o, lambda a, b: a + b, True)
    def __sub__(self, o): return self._ew(o, lambda a, b: a - b)
    def __rsub__(self, o): return self._ew(o, lambda a, b: a - b, True)
    def __mul__(self, o): return self._ew(o, lambda a, b: a * b)
    def __rmul__(self, o): return self._ew(o, lambda a, b: a * b, True)
    def __truediv__(self, o):
        r = self._ew(o, lambda a, b: a / b)
        r.dtype = DT('float')
        return r
    def __neg__(self): return SArr(self.shape, lambda idx: -wrap(self.fn(idx)), self.name, dtype=self.dtype)


def to_len(n):
    return n


def wrap(v):
    if isinstance(v, z3.ExprRef):
        return Z(v)
    return v


def unwrap(v, real=True):
    return to_z3(v, real=real)


def base_array(name, shape, dtype='float'):
    """array of an uninterpreted function F_name(i, j, ...) : Real (dtype 'int': integer-valued entries, int array)"""
    nd = len(shape)
    if dtype == 'int':
        Fi = z3.Function(name + '_int', *([z3.IntSort()] * nd + [z3.IntSort()]))
        F = lambda *a: z3.ToReal(Fi(*a))
        return SArr(shape, lambda idx: Z(F(*[to_z3(i) for i in idx])), name, dtype='int'), F
    F = z3.Function(name, *([z3.IntSort()] * nd + [z3.RealSort()]))
    return SArr(shape, lambda idx: Z(F(*[to_z3(i) for i in idx])), name), F


class GenRange(SArr):
    """np.arange(lo, hi) with symbolic bounds: an array i -> lo + i; when iterated, the body
    runs once with a generic index."""

    def __init__(self, lo, hi):
        self.lo, self.hi = ilen(lo), ilen(hi)
        ln = z3.simplify(z3.If(to_z3(self.hi) - to_z3(self.lo) > 0, to_z3(self.hi) - to_z3(self.lo), 0))
        SArr.__init__(self, (ln,), lambda idx: Z(to_z3(self.lo) + to_z3(idx[0])), 'arange')

    def __iter__(self):
        c = ctx()
        i = c.new_int('i')
        n0 = len(c.pc)
        c.assume(z3.And(i >= to_z3(self.lo), i < to_z3(self.hi)))
        c.gen_pending = dict(var=i, lo=self.lo, hi=self.hi, pc_mark=n0, done=False)
        yield Z(i)
        # after the single generic iteration: drop the assumption on i
        del c.pc[n0]
        c.gen_pending['done'] = True


def stack(items):
    """np.array([...]) / np.stack([...], axis=0) of equal-shape items -> new leading axis"""
    items = list(items)
    if not items:
        raise PathAbort('empty stack')
    if all(isinstance(x, (list, tuple)) for x in items):
        items = [stack(x) for x in items]
    first = items[0]
    if isinstance(first, SArr):
        shp = first.shape

        def fn(idx):
            k = idx[0]
            if isinstance(k, int):
                return items[k].fn(idx[1:])
            e = unwrap(items[-1].fn(idx[1:]))
            for j in range(len(items) - 2, -1, -1):
                e = z3.If(to_z3(k) == j, unwrap(items[j].fn(idx[1:])), e)
            return Z(e)
        return SArr((len(items),) + shp, fn, 'stack')
    # scalars
    def fn(idx):
        k = idx[0]
        if isinstance(k, int):
            return items[k]
        e = unwrap(items[-1])
        for j in range(len(items) - 2, -1, -1):
            e = z3.If(to_z3(k) == j, unwrap(items[j]), e)
        return Z(e)
    return SArr((len(items),), fn, 'stack')


class ShimNPz:
    """numpy as seen by the finite-difference module under E2."""

    def __getattr__(self, n):
        import numpy
        return getattr(numpy, n)

    def arange(self, lo, hi=None, step=None):
        if hi is None:
            lo, hi = 0, lo
        if step is not None:
            raise PathAbort('arange with step not modelled')
        if isinstance(ilen(lo), int) and isinstance(ilen(hi), int):
            return range(ilen(lo), ilen(hi))
        return GenRange(lo, hi)

    def asarray(self, x, *a, **k):
        return self.array(x, *a, **k)

    def array(self, x, *a, **k):
        c = ctx()
        g = c.gen_pending
        if isinstance(x, list) and g is not None and g['done'] and len(x) == 1:
            c.gen_pending = None
            elem, var, lo, hi = x[0], g['var'], g['lo'], g['hi']
            ln = z3.simplify(z3.If(to_z3(hi) - to_z3(lo) > 0, to_z3(hi) - to_z3(lo), 0))
            if isinstance(elem, SArr):
                def fn(idx, elem=elem):
                    e = unwrap(elem.fn(idx[1:]))
                    return Z(z3.substitute(e, (var, to_z3(lo) + to_z3(idx[0]))))
                return SArr((ln,) + elem.shape, fn, 'map')
            return SArr((ln,), lambda idx: Z(z3.substitute(unwrap(elem), (var, to_z3(lo) + to_z3(idx[0])))), 'map')
        if isinstance(x, SArr):
            return x
        return stack(x)

    def stack(self, xs, axis=0):
        r = stack(xs)
        return r if axis == 0 else self.moveaxis(r, 0, axis)

    def _alloc(self, shape, fill, dtype):
        import numpy
        dt = 'int' if (dtype in ('int', int) or (dtype is not None and dtype not in ('float', float) and not isinstance(dtype, DT) and numpy.issubdtype(numpy.dtype(dtype), numpy.integer))) else 'float'
        if fill is None:
            G = z3.Function(f'uninitialised!{next(ctx().fresh)}', *([z3.IntSort()] * len(shape) + [z3.RealSort()]))
            fn = lambda idx: Z(G(*[to_z3(i) for i in idx]))
        else:
            fn = lambda idx: Z(z3.RealVal(fill) if dt == 'float' else z3.ToReal(z3.IntVal(int(fill))))
        return SArr(tuple(shape), fn, 'alloc', dtype=dt)

    def empty_like(self, a, dtype=None, **k):
        return self._alloc(a.shape, None, dtype if dtype is not None else a.dtype) if isinstance(a, SArr) else getattr(__import__('numpy'), 'empty_like')(a, dtype=dtype, **k)

    def zeros_like(self, a, dtype=None, **k):
        return self._alloc(a.shape, 0, dtype if dtype is not None else a.dtype) if isinstance(a, SArr) else getattr(__import__('numpy'), 'zeros_like')(a, dtype=dtype, **k)

    def ones_like(self, a, dtype=None, **k):
        return self._alloc(a.shape, 1, dtype if dtype is not None else a.dtype) if isinstance(a, SArr) else getattr(__import__('numpy'), 'ones_like')(a, dtype=dtype, **k)

    def _symbolic_shape(self, shape):
        return isinstance(shape, tuple) and any(not isinstance(ilen(x), int) for x in shape)

    def empty(self, shape, dtype=None, **k):
        return self._alloc(tuple(ilen(x) for x in shape), None, dtype) if self._symbolic_shape(shape) else getattr(__import__('numpy'), 'empty')(shape, dtype=dtype or float, **k)

    def zeros(self, shape, dtype=None, **k):
        return self._alloc(tuple(ilen(x) for x in shape), 0, dtype) if self._symbolic_shape(shape) else getattr(__import__('numpy'), 'zeros')(shape, dtype=dtype or float, **k)

    def _perm_move(self, nd, src, dst):
        src, dst = src % nd, dst % nd
        order = [k for k in range(nd) if k != src]
        order.insert(dst, src)
        return tuple(order)

    def moveaxis(self, a, src, dst):
        if not (isinstance(src, int) and isinstance(dst, int)):
            raise PathAbort('moveaxis with axis sequences not modelled')
        return a.transpose(self._perm_move(len(a.shape), src, dst))

    def swapaxes(self, a, i, j):
        perm = list(range(len(a.shape)))
        perm[i], perm[j] = perm[j], perm[i]
        return a.transpose(tuple(perm))

    def flip(self, a, axis=None):
        nd = len(a.shape)
        axes = range(nd) if axis is None else ([axis % nd] if isinstance(axis, int) else [x % nd for x in axis])
        sl = tuple(slice(None, None, -1) if k in axes else slice(None) for k in range(nd))
        return a[sl]

    def append(self, a, b, axis=None):
        if axis is None:
            raise PathAbort('append with axis=None (flattening) not modelled')
        return self.concatenate((a, b), axis=axis)

    def concatenate(self, parts, axis=0):
        parts = list(parts)
        if axis != 0:
            nd = len(parts[0].shape)
            moved = [self.moveaxis(p, axis, 0) for p in parts]
            return self.moveaxis(self.concatenate(moved, axis=0), 0, axis % nd)
        lens = [p.shape[0] for p in parts]
        total = lens[0]
        for l in lens[1:]:
            total = total + l if isinstance(total, int) and isinstance(l, int) else z3.simplify(to_z3(total) + to_z3(l))
        rest = parts[0].shape[1:]

        def fn(idx):
            k = to_z3(idx[0])
            c = ctx()
            off = z3.IntVal(0)
            pieces = []
            for p, l in zip(parts, lens):
                cond = z3.And(k >= off, k < off + to_z3(l))
                n0 = len(c.pc)
                c.assume(cond)
                feasible = c.sat(z3.BoolVal(True)) != z3.unsat
                if feasible:
                    val = unwrap(p.fn((z3.simplify(k - off),) + idx[1:]))
                else:
                    val = None
                del c.pc[n0:]
                pieces.append((cond, val))
                off = z3.simplify(off + to_z3(l))
            e = None
            for cond, val in reversed(pieces):
                if val is None:
                    continue
                e = val if e is None else z3.If(cond, val, e)
            if e is None:
                raise Infeasible()
            return Z(e)
        return SArr((total,) + rest, fn, 'concat')

    def meshgrid(self, *arrs, indexing='xy'):
        if indexing != 'ij':
            raise PathAbort('meshgrid only modelled for indexing="ij"')
        shp = tuple(a.shape[0] for a in arrs)
        return [SArr(shp, (lambda idx, a=a, n=n: a.fn((idx[n],))), 'mesh') for n, a in enumerate(arrs)]

    def argmin(self, a):
        c = ctx()
        i = c.new_int('argmin')
        c.assume(z3.And(i >= 0, i < to_z3(a.shape[0])))
        return Z(i)

    def transpose(self, a, axes=None):
        if axes is None:
            axes = tuple(reversed(range(a.ndim)))
        return a.transpose(tuple(axes))

    def shape(self, a):
        return a.shape


# ---------------------------------------------------------------------------
def explore(fn, setup=None, max_paths=256):
    """run fn() on every feasible path.  -> list of (result, ctx)"""
    work = [[]]
    out = []
    while work:
        dec = work.pop()
        c = Ctx(dec)
        Ctx.cur = c
        try:
            if setup:
                setup(c)
            res = fn()
            out.append((res, c))
        except Infeasible:
            pass
        except PathEnd:
            out.append((None, c))
        finally:
            Ctx.cur = None
        work.extend(c.alts)
        if len(out) > max_paths:
            raise PathAbort('too many paths')
    return out


def prove(pc, goal, timeout_ms=20000):
    """-> ('valid', None) | ('invalid', model) | ('unknown', reason); z3 then cvc5-free fallback"""
    t0 = time.time()
    reason = None
    # a query that normally takes a fraction of a second occasionally runs into the time limit (solver heuristics depend on
    # incidental state); an `unknown` is therefore retried with other random seeds before it is reported -- it never becomes
    # a verdict either way
    for attempt, seed in enumerate((None, 7, 1234)):
        s = z3.Solver()
        s.set('timeout', timeout_ms if attempt == 0 else min(2 * timeout_ms, 60000))
        if seed is not None:
            s.set('random_seed', seed)
            z3.set_param('smt.random_seed', seed)
        s.add(*pc)
        s.add(z3.Not(goal))
        r = s.check()
        if seed is not None:
            z3.set_param('smt.random_seed', 0)
        if r == z3.unsat:
            return 'valid', None, time.time() - t0
        if r == z3.sat:
            return 'invalid', s.model(), time.time() - t0
        reason = s.reason_unknown()
        if time.time() - t0 > 150:
            break
    return 'unknown', reason, time.time() - t0


# ===========================================================================
# maps (dict model) and mechanical block extraction for loop-invariant reasoning
KEY = z3.IntSort()


class SDict:
    """symbolic dict: dom : Key -> Bool, val : Key -> V (z3 arrays); mutations are logged."""

    def __init__(self, name, valsort=None, dom=None, val=None):
        self.name = name
        self.valsort = valsort
        self.dom = dom if dom is not None else z3.Array(name + '.dom', KEY, z3.BoolSort())
        self.val = val if val is not None else (z3.Array(name + '.val', KEY, valsort) if valsort is not None else None)
        self.log = []

    def has(self, k):
        return z3.Select(self.dom, to_z3(k))

    def __bool__(self):
        raise PathAbort('truth value of a symbolic map (emptiness is not modelled)')

    def __contains__(self, k):
        return ctx().branch(self.has(k))

    def __getitem__(self, k):
        ctx().require(f'{self.name}[{k}]: key present (no KeyError)', self.has(k))
        if self.val is None:
            return DVal(self, k)
        return Z(z3.Select(self.val, to_z3(k)))

    def __setitem__(self, k, v):
        self.log.append(('set', k, v))
        self.dom = z3.Store(self.dom, to_z3(k), z3.BoolVal(True))
        if self.val is not None:
            self.val = z3.Store(self.val, to_z3(k), to_z3(v))

    def __delitem__(self, k):
        ctx().require(f'del {self.name}[{k}]: key present (no KeyError)', self.has(k))
        self.log.append(('del', k))
        self.dom = z3.Store(self.dom, to_z3(k), z3.BoolVal(False))

    def get(self, k, default=None):
        raise PathAbort('SDict.get on a generic map; use a function model')

    def pop(self, k, *default):
        if default:
            raise PathAbort('SDict.pop with a default on a generic map')
        v = self.__getitem__(k)
        self.__delitem__(k)
        return v

    def items(self):
        return GenItems(self)

    def keys(self):
        return GenItems(self, keys_only=True)

    def values(self):
        return ('values-of', self)

    def snapshot(self):
        return (self.dom, self.val)


class DVal:
    """opaque value stored in a map (an array held in AurelCore.data)"""

    def __init__(self, d, k):
        self.d, self.k = d, k


class GenItems:
    """iteration over a symbolic map: the body runs once for a generic present key"""

    def __init__(self, d, keys_only=False):
        self.d, self.keys_only = d, keys_only

    def __iter__(self):
        raise PathAbort('loop over a symbolic map must be verified through its extracted body')

    def __bool__(self):
        raise PathAbort('truth value of a view of a symbolic map')

    def __str__(self):
        return '<keys>'


def fmt_noop(self, spec):
    return ''


Z.__format__ = fmt_noop


def extract_loops(func):
    """AST of the real function -> (funcdef, [loop nodes in source order])"""
    import ast
    import inspect
    import textwrap
    tree = ast.parse(textwrap.dedent(inspect.getsource(func))).body[0]
    loops = [n for n in ast.walk(tree) if isinstance(n, (ast.For, ast.While))]
    loops.sort(key=lambda n: (n.lineno, n.col_offset))
    return tree, loops


def run_block(stmts, glb, loc, filename='<extracted>'):
    """execute a list of real statements (ast nodes) in namespace loc; `break` is caught.
    returns True if the block completed without `break`."""
    import ast
    body = list(stmts) + [ast.Assign(targets=[ast.Name(id='_completed', ctx=ast.Store())], value=ast.Constant(True)),
                          ast.Break()]
    wrapper = ast.While(test=ast.Constant(True), body=body, orelse=[])
    mod = ast.Module(body=[ast.Assign(targets=[ast.Name(id='_completed', ctx=ast.Store())], value=ast.Constant(False)),
                           wrapper], type_ignores=[])
    ast.fix_missing_locations(mod)
    code = compile(mod, filename, 'exec')
    exec(code, glb, loc)
    return loc.pop('_completed')


def run_block_status(stmts, glb, loc, filename='<extracted>'):
    """like run_block, but tells how the block ended: 'completed' | 'break' | 'continue'"""
    import ast
    body = list(stmts) + [ast.Assign(targets=[ast.Name(id='_status', ctx=ast.Store())], value=ast.Constant('completed'))]
    loop = ast.For(target=ast.Name(id='_once', ctx=ast.Store()), iter=ast.Tuple(elts=[ast.Constant(0)], ctx=ast.Load()), body=body,
                   orelse=[ast.If(test=ast.Compare(left=ast.Name(id='_status', ctx=ast.Load()), ops=[ast.NotEq()], comparators=[ast.Constant('completed')]),
                                  body=[ast.Assign(targets=[ast.Name(id='_status', ctx=ast.Store())], value=ast.Constant('continue'))], orelse=[])])
    mod = ast.Module(body=[ast.Assign(targets=[ast.Name(id='_status', ctx=ast.Store())], value=ast.Constant('break')), loop], type_ignores=[])
    ast.fix_missing_locations(mod)
    exec(compile(mod, filename, 'exec'), glb, loc)
    loc.pop('_once', None)
    return loc.pop('_status')


def raised_in_code_under_test(exc, roots=(os.environ.get('VERIF_REPO', '/repo').rstrip('/') + '/',)):
    """True if the innermost frame of the exception lies in the code under test: then it is the code that raised.
    Otherwise a library or the symbolic shim choked on a symbolic object -- a limit of the tool, never a verdict."""
    if any(mk in str(exc) for mk in TOOL_LIMIT_MARKERS):
        return False          # numpy's C code choking on a symbolic object has no Python frame of its own
    tb = exc.__traceback__
    last = None
    while tb is not None:
        last = tb.tb_frame.f_code.co_filename
        tb = tb.tb_next
    return bool(last) and any(last.startswith(r) for r in roots)


def lift_array(a, name='const'):
    """a concrete numpy array that lives at module level of the code under test -> SArr, so that the code may index it with
    symbolic bounds (numpy itself cannot).  Affine 1-D integer tables (np.arange) keep a closed form; other small arrays
    become an if-chain; large irregular ones are outside the model."""
    import numpy
    a = numpy.asarray(a)
    if a.ndim == 1 and a.size >= 2 and numpy.issubdtype(a.dtype, numpy.integer) and numpy.array_equal(a, a[0] + (a[1] - a[0]) * numpy.arange(a.size)):
        a0, st = int(a[0]), int(a[1] - a[0])
        return SArr((int(a.size),), lambda idx: Z(z3.IntVal(a0) + z3.IntVal(st) * to_z3(idx[0])), name, dtype='int')
    if a.size <= 64:
        flat = [x.item() for x in a.ravel()]
        shape = tuple(int(n) for n in a.shape)

        def fn(idx):
            lin = z3.IntVal(0)
            for i_, n_ in zip(idx, shape):
                lin = lin * n_ + to_z3(i_)
            e = to_z3(flat[-1], real=True)
            for j in range(len(flat) - 2, -1, -1):
                e = z3.If(lin == j, to_z3(flat[j], real=True), e)
            return Z(e)
        return SArr(shape, fn, name, dtype='int' if numpy.issubdtype(a.dtype, numpy.integer) else 'float')
    raise PathAbort(f'module-level array {name} of {a.size} irregular entries is outside the model')


TOOL_LIMIT_MARKERS = ("'Z' object", "'SArr' object", 'SArr', '0-dimensional', 'only integers, slices', 'object arrays are not supported', 'symbolic')
