"""Run bookkeeping: obligations, verdict protocol, known findings, evidence, replay files.

exit 0  every obligation discharged (known findings printed as KNOWN-FINDING lines)
exit 1  a named obligation refuted and not listed in known_findings.txt
        -> `VIOLATION property=<id> replay=<path>` (suffix ` no-failing-input-found`
        when the refutation has no concrete failing input that replays natively)
exit 2  undecided (solver unknown/timeout, code left the decidable subset)
exit 3  checker crash
"""
import hashlib
import json
import os
import re
import sys
import time
import traceback

ROOT = os.path.dirname(os.path.dirname(os.path.abspath(__file__)))
REPO = os.environ.get('VERIF_REPO', '/repo')
OUT = os.environ.get('VERIF_OUT') or None

ASSUMPTIONS = {
    'A1': 'A1 machine arithmetic treated as mathematical: float64 = exact reals; float literals denote the rational they round (limit_denominator 1e6, else the exact binary value); no overflow/NaN reasoning',
    'A2': 'A2 numpy primitives (einsum, array, stack, append, concatenate, transpose, basic slicing, where, sort, arange on ints) obey their documented semantics; object-dtype einsum = the same contraction',
    'A3': 'A3 consistency lemma: smooth pointwise maps composed with p-th-order-consistent linear difference operators are p-th-order consistent with the continuum expression (turns equality in the jet algebra + C07 into convergence at the order of the scheme)',
    'A4': 'A4 external libraries trusted with assumed contracts (h5py file = map name -> array; os/glob/json/yaml; scipy RegularGridInterpolator, scipy.special; sympy simplify/diff semantics-preserving)',
    'A5': 'A5 textbook definitions in /verif/engine/universe.py (Christoffel, Riemann, Ricci, Weyl, Lie derivative, 3+1 projections, perfect fluid) are transcribed correctly; cross-checked by independent second formulations, not proved',
    'A6': 'A6 CPython executes the real code objects as the language reference says; types.FunctionType(code, globals) re-binding of np/sc/maths changes nothing else',
    'A7': 'A7 generic-point semantics: a scalar field that is not identically zero is non-zero at the grid point considered (division through safe_division); behaviour at zero divisors is proved separately',
    'A8': 'A8 Schwartz-Zippel: polynomial identities decided by evaluation on random truncated jets over F_p, p = 2^61-1; error <= deg/p per point (< 2^-45), points are independent',
    'A9': 'A9 preconditions (requires) are trusted to describe the inputs the property quantifies over; hand-written invariants and ghost specs are checked, not trusted',
}


class Ob:
    __slots__ = ('name', 'func', 'status', 'backend', 'secs', 'detail', 'sig', 'witness', 'bounded', 'replay')

    def __init__(self, name, func, status, backend, secs, detail='', sig='', witness=None, bounded=None):
        self.name, self.func, self.status, self.backend = name, func, status, backend
        self.secs, self.detail, self.sig, self.witness, self.bounded = secs, detail, sig, witness, bounded
        self.replay = None

    def as_dict(self):
        d = dict(name=self.name, function=self.func, status=self.status, backend=self.backend,
                 secs=round(self.secs, 4))
        if self.detail:
            d['detail'] = self.detail[:2000]
        if self.sig:
            d['signature'] = self.sig
        if self.bounded:
            d['bound'] = self.bounded
        return d


def sig_of(components):
    s = json.dumps(sorted(map(str, components)))
    return hashlib.sha1(s.encode()).hexdigest()[:10]


class KnownFindings:
    def __init__(self, path=None):
        self.path = path or os.path.join(ROOT, 'known_findings.txt')
        self.findings, self.fixed = [], []
        if os.path.exists(self.path):
            for line in open(self.path):
                line = line.strip()
                if not line or line.startswith('#'):
                    continue
                if line.startswith('finding:'):
                    m = re.match(r'finding:\s+property=(\S+)\s+obligation=("[^"]*"|\S+)\s+sig=(\S+)\s*(.*)', line)
                    if m:
                        self.findings.append(dict(props=m.group(1).split(','), ob=m.group(2).strip('"'), sig=m.group(3),
                                                  text=m.group(4)))
                elif line.startswith('fixed:'):
                    self.fixed.append(line)

    def match(self, pid, ob):
        for f in self.findings:
            if pid in f['props'] and f['ob'] == ob.name and (f['sig'] == '*' or f['sig'] == ob.sig):
                return f
        return None


class Run:
    def __init__(self, pid, tier='quick', seed=0, level='proof'):
        self.pid, self.tier, self.seed, self.level = pid, tier, seed, level
        self.obs = []
        self.t0 = time.time()
        self.functions = {}       # qualified name -> dict(file, lines, sha)
        self.assumptions = []
        self.trusted = []
        self.bounded = []
        self.numeric = []
        self.notes = []
        self.samples = []
        self.paths = 0
        self.extra = {}
        self.kf = KnownFindings()
        self.replay_hooks = {}    # obligation name -> callable(ob) -> (replayed: bool, text)
        self.ob_filter = None

    # ------------------------------------------------------------------
    def assume(self, *keys):
        for k in keys:
            t = ASSUMPTIONS.get(k, k)
            if t not in self.assumptions:
                self.assumptions.append(t)

    def trust(self, text):
        if text not in self.trusted:
            self.trusted.append(text)

    def under_contract(self, func, qualname=None):
        """record a real function (source span + hash of the verified text)."""
        import inspect
        try:
            src, ln = inspect.getsourcelines(func)
            fn = inspect.getsourcefile(func)
        except (OSError, TypeError):
            return
        q = qualname or f'{func.__module__}.{func.__qualname__}'
        self.functions[q] = dict(file=os.path.relpath(fn, REPO) if fn.startswith(REPO) else fn,
                                 lines=[ln, ln + len(src) - 1],
                                 sha=hashlib.sha1(''.join(src).encode()).hexdigest()[:12])

    def ob(self, name, func, status, backend, secs=0.0, detail='', components=None, witness=None,
           bounded=None, replay=None):
        """status: discharged | refuted | undecided | bounded-ok | numeric-ok"""
        flt = getattr(self, 'ob_filter', None)
        if flt is not None and not flt(name, status):
            return None
        o = Ob(name, func, status, backend, secs, detail, sig_of(components) if components else '',
               witness, bounded)
        if components:
            o.detail = (o.detail + ' components=' + json.dumps(sorted(map(str, components))[:40])).strip()
        if replay is not None:
            self.replay_hooks[name] = replay
        self.obs.append(o)
        if len(self.samples) < 6 and status in ('discharged', 'bounded-ok'):
            self.samples.append(o.as_dict())
        return o

    # ------------------------------------------------------------------
    def finish(self, checker_cmd=None):
        wall = time.time() - self.t0
        refuted = [o for o in self.obs if o.status == 'refuted']
        undec = [o for o in self.obs if o.status == 'undecided']
        known, new = [], []
        for o in refuted:
            f = self.kf.match(self.pid, o)
            (known if f else new).append((o, f))
        lines = []
        for o, f in known:
            lines.append(f'KNOWN-FINDING: property={self.pid} {o.name} sig={o.sig} {f["text"]}')
        os.makedirs(os.path.join(OUT or ROOT, 'replay', self.pid), exist_ok=True)
        self._replays_done = 0
        for o, _ in new:
            path, replayed = self.write_replay(o)
            suffix = '' if replayed else ' no-failing-input-found'
            lines.append(f'VIOLATION property={self.pid} replay={path}{suffix}')
        n = len(self.obs)
        by_backend = {}
        for o in self.obs:
            b = by_backend.setdefault(o.backend, dict(obligations=0, secs=0.0))
            b['obligations'] += 1
            b['secs'] = round(b['secs'] + o.secs, 3)
        discharged = sum(1 for o in self.obs if o.status == 'discharged')
        bounded_ok = sum(1 for o in self.obs if o.status in ('bounded-ok', 'numeric-ok'))
        vac_fail = (n == 0)
        cov = dict(
            obligations=n - bounded_ok, discharged=discharged,
            checker_cmd=checker_cmd or f'./check {self.pid} --tier {self.tier}',
            trusted_base=self.assumptions + self.trusted,
            backends=by_backend,
            functions_under_contract=self.functions,
            n_functions_under_contract=len(self.functions),
            paths_enumerated=self.paths,
            bounded=self.bounded, bounded_obligations_ok=bounded_ok,
            numeric=self.numeric,
            undecided=[o.as_dict() for o in undec],
            refuted=[o.as_dict() for o in refuted],
            known_findings_matched=[o.name for o, _ in known],
            samples=self.samples[:6] or [o.as_dict() for o in self.obs[:3]],
            notes=self.notes,
            explanation=self.extra.pop('explanation', ''),
        )
        cov.update(self.extra)
        if not cov['explanation']:
            cov.pop('explanation')
        ev = dict(property_id=self.pid, tier=self.tier, seed=self.seed, level=self.level, coverage=cov,
                  assumptions=self.assumptions + self.trusted, wall_s=round(wall, 2),
                  violations=len(new))
        os.makedirs(os.path.join(OUT or ROOT, 'evidence'), exist_ok=True)
        with open(os.path.join(OUT or ROOT, 'evidence', f'{self.pid}.json'), 'w') as f:
            json.dump(ev, f, indent=1, default=str)
        for ln in lines:
            print(ln)
        print(f'[{self.pid}] tier={self.tier} obligations={n} discharged={discharged} bounded/numeric-ok={bounded_ok} '
              f'refuted={len(refuted)} (known {len(known)}) undecided={len(undec)} wall={wall:.1f}s')
        if vac_fail:
            print(f'[{self.pid}] VACUITY: zero obligations generated')
            return 3
        if new:
            return 1
        if undec:
            for o in undec[:10]:
                print(f'UNDECIDED {o.name}: {o.detail[:300]}')
            return 2
        return 0

    def write_replay(self, o):
        d = os.path.join(OUT or ROOT, 'replay', self.pid)
        safe = re.sub(r'[^A-Za-z0-9_.-]+', '_', o.name)[:120]
        path = os.path.join(d, safe + '.json')
        replayed, text = False, ''
        hook = self.replay_hooks.get(o.name)
        if hook is not None and self._replays_done >= 8:
            text = 'native replay skipped: 8 counterexamples of this run were already replayed (cap)'
            replayed = getattr(self, '_any_replayed', False)
        elif hook is not None:
            import signal

            def _alarm(sig, frm):
                raise TimeoutError('native replay exceeded its 240 s budget')
            old = signal.signal(signal.SIGALRM, _alarm)
            signal.alarm(240)
            try:
                self._replays_done += 1
                replayed, text = hook(o)
                if replayed:
                    self._any_replayed = True
            except Exception:
                text = 'replay harness did not finish:\n' + traceback.format_exc()
            finally:
                signal.alarm(0)
                signal.signal(signal.SIGALRM, old)
        rec = dict(property=self.pid, obligation=o.name, function=o.func, backend=o.backend,
                   signature=o.sig, verifier_output=o.detail, witness=o.witness,
                   replayed_natively=replayed, native_replay=text,
                   how_to_replay=f'./check {self.pid} --replay {path}')
        with open(path, 'w') as f:
            json.dump(rec, f, indent=1, default=str)
        return path, replayed
