"""E1: run the *real* function objects of /repo on jet scalars.

`rebind_module(mod, shim)` gives, for a real module of aurel, a namespace whose
functions are `types.FunctionType(real.__code__, patched_globals)`: the code
objects are the ones compiled from the current /repo source; only the global
names `np` (numpy), `sc` (scipy.special), and the sibling aurel modules are
re-bound.  Nothing else is changed or re-implemented.
"""
import ast
import inspect
import textwrap
import types
import numpy as _np

from .jets import J, CJ, Field, omap, Undecided, POISON, Poison


def _obj(shape, v):
    o = _np.empty(shape, dtype=object)
    o[...] = v
    return o


class ShimNP:
    """numpy with the handful of constructors that would force float64."""

    def __init__(self, F):
        self._F = F

    def __getattr__(self, n):
        return getattr(_np, n)

    def zeros(self, shape, *a, **k):
        return _obj(shape, J.const(self._F, 0))

    def ones(self, shape, *a, **k):
        return _obj(shape, J.const(self._F, 1))

    def empty(self, shape, *a, **k):
        return _obj(shape, J.const(self._F, 0))

    def zeros_like(self, x, *a, **k):
        return _obj(_np.shape(x), J.const(self._F, 0))

    def ones_like(self, x, *a, **k):
        return _obj(_np.shape(x), J.const(self._F, 1))

    def array(self, x, *a, **k):
        if 'dtype' in k or a:
            return _np.array(x, *a, **k)
        return _np.array(x, dtype=object)

    def _scalar(self, x):
        return J.const(self._F, x)

    def sqrt(self, x):
        if isinstance(x, (J, Poison)):
            return x.sqrt()
        if isinstance(x, _np.ndarray):
            return omap(lambda e: (e if isinstance(e, (J, Poison)) else self._scalar(e)).sqrt(), x)
        return self._scalar(x).sqrt()

    def log(self, x):
        if isinstance(x, _np.ndarray):
            return omap(lambda e: e.log(), x)
        return x.log()

    def exp(self, x):
        if isinstance(x, _np.ndarray):
            return omap(lambda e: e.exp() if isinstance(e, (J, Poison)) else self._scalar(e).exp(), x)
        return x.exp()

    def abs(self, x):
        if isinstance(x, _np.ndarray):
            return omap(abs, x)
        return abs(x)
    absolute = abs

    def real(self, x):
        if isinstance(x, _np.ndarray):
            return omap(lambda e: e.real, x)
        return x.real

    def imag(self, x):
        if isinstance(x, _np.ndarray):
            return omap(lambda e: e.imag, x)
        return x.imag

    def conj(self, x):
        if isinstance(x, _np.ndarray):
            return omap(lambda e: e.conjugate(), x)
        return x.conjugate()
    conjugate = conj

    def where(self, cond, a, b):
        return _np.where(cond, a, b)


class RebMod:
    """namespace of the real functions of `mod`, globals re-bound."""

    def __init__(self, mod, overrides):
        g = dict(mod.__dict__)
        g.update(overrides)
        self._g = g
        self._mod = mod
        for n, f in list(mod.__dict__.items()):
            if isinstance(f, types.FunctionType) and f.__module__ == mod.__name__:
                g[n] = types.FunctionType(f.__code__, g, f.__name__, f.__defaults__, f.__closure__)
                g[n].__kwdefaults__ = f.__kwdefaults__

    def __getattr__(self, n):
        try:
            return self._g[n]
        except KeyError:
            raise AttributeError(n)


def rebind_class(cls, g):
    """subclass of cls whose plain methods are the real code objects with globals g."""
    ns = {}
    for n, f in cls.__dict__.items():
        if isinstance(f, types.FunctionType):
            nf = types.FunctionType(f.__code__, g, f.__name__, f.__defaults__, f.__closure__)
            nf.__kwdefaults__ = f.__kwdefaults__
            ns[n] = nf
    return type('Reb' + cls.__name__, (cls,), ns)


class Env:
    """all re-bound aurel modules for one coefficient field."""

    def __init__(self, F):
        import aurel.maths as M
        import aurel.core as C
        import aurel.finitedifference as FDm
        import aurel.numerical as N
        self.F = F
        self.np = ShimNP(F)
        self.maths = RebMod(M, {'np': self.np})
        self.numerical = RebMod(N, {'np': self.np})
        self.fdmod = RebMod(FDm, {'np': self.np, 'maths': self.maths})
        gcore = dict(C.__dict__)
        gcore.update({'np': self.np, 'maths': self.maths, 'numerical': self.numerical})
        self.gcore = gcore
        self.Core = rebind_class(C.AurelCore, gcore)
        self.FDclass = rebind_class(FDm.FiniteDifference, self.fdmod._g)
        self.real_core = C
        self.real_fd = FDm

    def method(self, name):
        """the real AurelCore method `name` with shimmed globals (unbound)."""
        return self.Core.__dict__[name]


# --------------------------------------------------------------------------
# tensors of jets
def tens(a):
    """spec tensor (no grid axes) -> code convention (trailing (1,1,1)), read-only."""
    a = _np.asarray(a, dtype=object)
    out = a.reshape(a.shape + (1, 1, 1)).copy()
    out.flags.writeable = False
    return out


def untens(a):
    a = _np.asarray(a, dtype=object)
    if a.shape[-3:] != (1, 1, 1):
        raise Undecided(f'result does not have pointwise grid axes: shape {a.shape}')
    return a.reshape(a.shape[:-3])


# --------------------------------------------------------------------------
# guard discovery from the AST of the real source
def function_source_ast(func):
    src = textwrap.dedent(inspect.getsource(func))
    return ast.parse(src).body[0]


# helper methods the contract stub answers by their contract (their bodies are not run inside a caller)
NO_FOLLOW = {'s_covd', 'st_covd', 's_div', 's_curl', 'Lie_beta', 's_to_st', 'levicivita_down3', 'levicivita_up3', 'levicivita_down4', 'levicivita_up4'}


def _no_follow():
    """+ every method the contract stub defines itself"""
    try:
        from . import contracts as _ct
        extra = {k for k in vars(_ct.Stub) if not k.startswith('__')}
    except Exception:
        extra = set()
    return NO_FOLLOW | extra | {'myprint', 'cleanup_cache'}


def discover_guards(func, _seen=None):
    """control inputs of a function: cache-membership tests and option reads.

    Returns dict(keys=set of data keys tested with in/not in self.data,
                 opts=set of self.<attr> compared or tested (vacuum, tetrad),
                 unknown=list of test expressions not understood)."""
    tree = function_source_ast(func)
    keys, opts, unknown = set(), set(), []

    def is_self_data(n):
        if isinstance(n, ast.Attribute) and n.attr == 'data' and isinstance(n.value, ast.Name) and n.value.id == 'self':
            return True
        if (isinstance(n, ast.Call) and isinstance(n.func, ast.Attribute) and n.func.attr == 'keys'
                and is_self_data(n.func.value)):
            return True
        return False

    def visit_test(t):
        if isinstance(t, ast.BoolOp):
            for v in t.values:
                visit_test(v)
            return
        if isinstance(t, ast.UnaryOp) and isinstance(t.op, ast.Not):
            visit_test(t.operand)
            return
        # all(key in self.data for key in ('a', 'b')) / any(...): membership of each listed constant
        if (isinstance(t, ast.Call) and isinstance(t.func, ast.Name) and t.func.id in ('all', 'any') and len(t.args) == 1
                and isinstance(t.args[0], (ast.GeneratorExp, ast.ListComp)) and len(t.args[0].generators) == 1):
            ge = t.args[0]
            gen = ge.generators[0]
            e = ge.elt
            if (isinstance(gen.target, ast.Name) and not gen.ifs and isinstance(gen.iter, (ast.Tuple, ast.List))
                    and all(isinstance(c, ast.Constant) and isinstance(c.value, str) for c in gen.iter.elts)
                    and isinstance(e, ast.Compare) and len(e.ops) == 1 and isinstance(e.ops[0], (ast.In, ast.NotIn))
                    and isinstance(e.left, ast.Name) and e.left.id == gen.target.id and is_self_data(e.comparators[0])):
                keys.update(c.value for c in gen.iter.elts)
                return
        if isinstance(t, ast.Compare) and len(t.ops) == 1:
            op = t.ops[0]
            l, r = t.left, t.comparators[0]
            if isinstance(op, (ast.In, ast.NotIn)) and isinstance(l, ast.Constant) and is_self_data(r):
                keys.add(l.value)
                return
            if isinstance(l, ast.Attribute) and isinstance(l.value, ast.Name) and l.value.id == 'self':
                opts.add(l.attr)
                return
            # tests on plain arguments (indexing == 'u', rank == 1, weight != 0, direction)
            names = {n.id for n in ast.walk(t) if isinstance(n, ast.Name)}
            if 'self' not in names:
                return
        if isinstance(t, ast.Attribute) and isinstance(t.value, ast.Name) and t.value.id == 'self':
            opts.add(t.attr)
            return
        if isinstance(t, ast.Name):
            return
        names = {n.id for n in ast.walk(t) if isinstance(n, ast.Name)}
        if 'self' in names:
            unknown.append(ast.unparse(t))

    for node in ast.walk(tree):
        if isinstance(node, (ast.If, ast.While, ast.IfExp)):
            visit_test(node.test)
    # a method called directly (self.name(...), not self['name']) runs its real body inside the caller: its control inputs are
    # control inputs of the caller as well (transitively)
    if _seen is None:
        _seen = {getattr(func, '__name__', '')}
    cls = None
    try:
        import sys as _sys
        cls = getattr(_sys.modules.get(func.__module__), func.__qualname__.split('.')[0], None) if '.' in getattr(func, '__qualname__', '') else None
    except Exception:
        cls = None
    if cls is not None:
        for node in ast.walk(tree):
            if (isinstance(node, ast.Call) and isinstance(node.func, ast.Attribute) and isinstance(node.func.value, ast.Name)
                    and node.func.value.id == 'self' and node.func.attr not in _seen and node.func.attr not in _no_follow()):
                callee = cls.__dict__.get(node.func.attr)
                if isinstance(callee, types.FunctionType):
                    _seen.add(node.func.attr)
                    try:
                        sub = discover_guards(callee, _seen)
                    except Exception:
                        continue
                    keys |= sub['keys']
                    opts |= sub['opts']
                    unknown += [f'{node.func.attr}: {u}' for u in sub['unknown']]
    return dict(keys=keys, opts=opts, unknown=unknown)
