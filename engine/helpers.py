"""Obligations for AurelCore helper methods that take arguments (derivative operators,
index gymnastics, tetrads).  Specs are the ones the contract stub serves to callers."""
import time
from fractions import Fraction
import numpy as _np

from .jets import J, CJ, Undecided, NeedResample, same, omap
from .e1 import tens, untens
from .universe import SpecUnavailable, arr, ozeros, eps_symbol, D3
from . import contracts as CT


def rand_tensor(U, shape, order=1, sym=False):
    tv = (0, 1, 2, 3) if U.mode == 'onshell' else (1, 2, 3)
    a = ozeros(*shape) if shape else None
    if not shape:
        return J.rand(U.F, order, U.rng, tv)
    for idx in _np.ndindex(*shape):
        if sym and tuple(sorted(idx)) != idx:
            a[idx] = a[tuple(sorted(idx))]
        else:
            a[idx] = J.rand(U.F, order, U.rng, tv)
    return a


def _cases(U):
    """(label, method, args builder, spec builder) -- built lazily per world."""
    E = _np.einsum
    F3 = Fraction(1, 3)
    cases = []

    def add(label, meth, mk):
        cases.append((label, meth, mk))

    for idx in ['', 'u', 'd', 'uu', 'dd', 'ud', 'du']:
        def mk(idx=idx):
            f = rand_tensor(U, (3,) * len(idx))
            return (tens(f), idx), {}, U.covd3(f, idx)
        add(f's_covd[{idx or "scalar"}]', 's_covd', mk)
    # structured rank-2 arguments: code that tests its argument for a structure (symmetry, vanishing components) before taking
    # a shortcut sees generic data as unstructured -- symmetric, antisymmetric and "diagonal + one off-diagonal component" tensors
    def structured(f, pat):
        f = f.copy()
        if pat == 'sym':
            for a in range(3):
                for b in range(a):
                    f[a, b] = f[b, a]
        elif pat == 'antisym':
            for a in range(3):
                f[a, a] = f[a, a] * 0
                for b in range(a):
                    f[a, b] = -f[b, a]
        else:
            keep = (int(pat[-2]), int(pat[-1]))
            for a in range(3):
                for b in range(3):
                    if a != b and (a, b) != keep:
                        f[a, b] = f[a, b] * 0
        return f
    PATTERNS = ['sym', 'antisym'] + [f'diag+{a}{b}' for a in range(3) for b in range(3) if a != b]
    for idx in ['uu', 'dd', 'ud', 'du']:
        for pat in PATTERNS:
            def mk(idx=idx, pat=pat):
                f = structured(rand_tensor(U, (3, 3)), pat)
                return (tens(f), idx), {}, U.covd3(f, idx)
            add(f's_covd[{idx}|{pat}]', 's_covd', mk)

            def mk(idx=idx, pat=pat):
                f = structured(rand_tensor(U, (3, 3)), pat)
                return (tens(f), idx), {}, CT.spec_s_div(U, f, idx)
            add(f's_div[{idx}|{pat}]', 's_div', mk)
    for pat in PATTERNS:
        def mk(pat=pat):
            f = structured(rand_tensor(U, (3, 3)), pat)
            return (tens(f), 'dd'), {}, CT.spec_s_curl(U, f)
        add(f's_curl[dd|{pat}]', 's_curl', mk)
    for idx in ['', 'u', 'd']:
        def mk(idx=idx):
            f = rand_tensor(U, (4,) * len(idx))
            dtf = rand_tensor(U, (4,) * len(idx), order=0)
            return (tens(f), tens(dtf), idx), {}, U.covd4(f, dtf, idx)
        add(f'st_covd[{idx or "scalar"}]', 'st_covd', mk)
    for idx in ['u', 'd', 'uu', 'ud', 'du', 'dd']:
        def mk(idx=idx):
            f = rand_tensor(U, (3,) * len(idx))
            return (tens(f), idx), {}, CT.spec_s_div(U, f, idx)
        add(f's_div[{idx}]', 's_div', mk)

    def mk():
        f = rand_tensor(U, (3, 3))
        return (tens(f), 'dd'), {}, CT.spec_s_curl(U, f)
    add('s_curl[dd]', 's_curl', mk)
    for indexing in ['', 's_u', 'st_u', 's_d', 'st_d', 's_uu', 's_ud', 's_du', 's_dd']:
        for w in [0, 1 / 6, -2 / 3, 2 / 3]:
            def mk(indexing=indexing, w=w):
                dim, idx = CT.parse_lie_indexing(indexing)
                f = rand_tensor(U, (dim,) * len(idx))
                return (tens(f), indexing), dict(weight=w), U.lie_beta(f, idx, w, dim)
            add(f'Lie_beta[{indexing or "scalar"},w={Fraction(w).limit_denominator(100)}]', 'Lie_beta', mk)

    def mk():
        f = rand_tensor(U, (3, 3), order=0, sym=True)
        return (tens(f),), {}, U.s_to_st(f)
    add('s_to_st', 's_to_st', mk)

    def mk():
        f = rand_tensor(U, (3, 3), order=0)
        return (tens(f),), {}, E('ij,ij->', U['gammaup3'], f)
    add('trace3', 'trace3', mk)

    def mk():
        f = rand_tensor(U, (4, 4), order=0)
        return (tens(f),), {}, E('ij,ij->', U['gup4'], f)
    add('trace4', 'trace4', mk)

    def mk():
        f = rand_tensor(U, (3, 3), order=0)
        return (tens(f),), {}, f - U['gammadown3'] * E('ij,ij->', U['gammaup3'], f) * F3
    add('tracefree3', 'tracefree3', mk)

    def mk():
        f = rand_tensor(U, (3, 3), order=0)
        gu = U['gammaup3']
        return (tens(f),), {}, E('ab,ij,ai,bj->', f, f, gu, gu) * Fraction(1, 2)
    add('magnitude3', 'magnitude3', mk)

    def mk():
        f = rand_tensor(U, (4, 4), order=0)
        gu = U['gup4']
        return (tens(f),), {}, E('ab,ij,ai,bj->', f, f, gu, gu) * Fraction(1, 2)
    add('magnitude4', 'magnitude4', mk)

    def mk():
        a, b = rand_tensor(U, (3,), 0), rand_tensor(U, (3,), 0)
        return (tens(a), tens(b)), {}, E('a,b,ab->', a, b, U['gammadown3'])
    add('vector_inner_product3', 'vector_inner_product3', mk)

    def mk():
        a, b = rand_tensor(U, (4,), 0), rand_tensor(U, (4,), 0)
        return (tens(a), tens(b)), {}, E('a,b,ab->', a, b, U['gdown4'])
    add('vector_inner_product4', 'vector_inner_product4', mk)

    def mk():
        a = rand_tensor(U, (3,), 0)
        return (tens(a),), {}, abs(E('a,b,ab->', a, a, U['gammadown3'])).sqrt()
    add('norm3', 'norm3', mk)

    def mk():
        a = rand_tensor(U, (4,), 0)
        return (tens(a),), {}, abs(E('a,b,ab->', a, a, U['gdown4'])).sqrt()
    add('norm4', 'norm4', mk)

    def mk():
        k = ozeros(3, 3)
        for i in range(3):
            k[i, i] = 1
        return (), {}, k
    add('kronecker_delta3', 'kronecker_delta3', mk)

    def mk():
        k = ozeros(4, 4)
        for i in range(4):
            k[i, i] = 1
        return (), {}, k
    add('kronecker_delta4', 'kronecker_delta4', mk)
    add('levicivita_symbol_down3', 'levicivita_symbol_down3', lambda: ((), {}, eps_symbol(3)))
    add('levicivita_symbol_down4', 'levicivita_symbol_down4', lambda: ((), {}, eps_symbol(4)))
    add('levicivita_down3', 'levicivita_down3', lambda: ((), {}, U['levicivita_down3']))
    add('levicivita_down4', 'levicivita_down4', lambda: ((), {}, U['levicivita_down4']))
    add('null_vector_base', 'null_vector_base', lambda: ((), {}, tuple(U.null_vectors())))
    for direction in ['out', 'in']:
        def mk(direction=direction):
            f = rand_tensor(U, (), order=2)
            return (tens(f),), dict(direction=direction), CT.spec_null_ray_expansion(U, f, direction)
        add(f'null_ray_expansion[{direction}]', 'null_ray_expansion', mk)
    return cases


def helper_obligations(R, worlds, scen, only=None, npoints=1, backend='pit-exact', present=('betaup3', 'betax'), tag=''):
    import aurel.core as C
    F, U, env = worlds.get(scen, 0)
    labels = [c[0] for c in _cases(U)]
    made = 0
    for li, label in enumerate(labels):
        meth = _cases(U)[li][1]
        if only and meth not in only:
            continue
        R.under_contract(getattr(C.AurelCore, meth), f'aurel.core.AurelCore.{meth}')
        obname = f'core.{label}[{scen}{tag}]'
        t0 = time.time()
        bad, frame, undec, raised, fresh_fail = set(), None, None, None, None
        for k in range(npoints):
            for attempt in range(12):
                F, U, env = worlds.get(scen, k) if attempt == 0 else worlds.fresh(scen, k, attempt)
                try:
                    args, kwargs, spec = _cases(U)[li][2]()
                    st, det, stub, res = CT.run_function(env, U, meth, set(U.inputs) | set(present or ()),
                                                         args=args, kwargs=kwargs)
                    if st == 'ok':
                        bad |= {c for c, _ in CT.compare(res, spec)}
                        for a in args:
                            if isinstance(a, _np.ndarray) and isinstance(res, _np.ndarray) and _np.shares_memory(a, res):
                                fresh_fail = 'result aliases an argument'
                        for v in stub._served.values():
                            if isinstance(v, _np.ndarray) and isinstance(res, _np.ndarray) and _np.shares_memory(v, res):
                                fresh_fail = 'result aliases a cached array'
                    elif st == 'frame':
                        frame = det
                    else:
                        raised = det
                    break
                except NeedResample:
                    continue
                except SpecUnavailable as e:
                    undec = f'spec unavailable: {e}'
                    break
                except Undecided as e:
                    undec = str(e)
                    break
            else:
                undec = 'resampling exhausted'
        secs = time.time() - t0
        made += 2

        def rp(o, li=li, meth=meth, scen=scen):
            return replay_helper(li, meth, scen, worlds.seed, present)
        if undec and 'spec unavailable' in undec and not (bad or frame or raised):
            R.notes.append(f'{obname}: not generated ({undec})')
            made -= 2
            continue
        if undec and not (bad or frame or raised):
            R.ob(obname + ':ensures', meth, 'undecided', backend, secs, undec)
        elif raised:
            R.ob(obname + ':ensures', meth, 'refuted', backend, secs, 'raised: ' + raised, ['raised'], replay=rp)
        elif bad:
            R.ob(obname + ':ensures', meth, 'refuted', backend, secs, f'code != spec of {label}', sorted(bad),
                 witness=dict(scenario=scen, seed=worlds.seed), replay=rp)
        elif not frame:
            R.ob(obname + ':ensures', meth, 'discharged', backend, secs)
        if frame:
            R.ob(obname + ':frame', meth, 'refuted', 'numpy-readonly', secs, frame, ['frame'])
        elif fresh_fail:
            R.ob(obname + ':frame', meth, 'refuted', 'numpy-readonly', secs,
                 fresh_fail + ' (callers update the result in place)', ['alias'])
        else:
            R.ob(obname + ':frame', meth, 'discharged', 'numpy-readonly', 0.0)
    return made


def replay_helper(li, meth, scen, seed, present):
    """native replay of a helper obligation: arguments and every key the helper reads become
    polynomial fields; the unmodified method runs on a real AurelCore."""
    from . import native
    F, U, env = native.float_world(scen, seed)
    label, _, mk = _cases(U)[li]
    args, kwargs, spec = mk()
    st, det, stub, res = CT.run_function(env, U, meth, set(U.inputs) | set(present or ()), args=args, kwargs=kwargs)
    rel, offs = native.make_native(U)
    keys = set(stub.reads) | set(U.inputs) | set(present or ())
    for k in keys:
        try:
            rel.data[k] = native.field_of(U[k], offs)
        except SpecUnavailable:
            pass
    rel.freeze_data()
    nargs = [native.field_of(untens(a), offs) if isinstance(a, _np.ndarray) else a for a in args]
    lines = [f'native replay of AurelCore.{label} on scenario {scen}; preloaded {sorted(keys)}']
    try:
        out = getattr(rel, meth)(*nargs, **kwargs)
    except Exception as e:
        return True, '\n'.join(lines + [f'real method raised {type(e).__name__}: {e}'])
    bad = native.compare_center(out, spec)
    for c, cv, sv in bad[:12]:
        lines.append(f'  component {c}: code {cv!r} vs textbook {sv!r}')
    if not bad:
        lines.append('  no discrepancy above tolerance at the probe point')
    return bool(bad), '\n'.join(lines)
