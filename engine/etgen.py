"""Generator of Einstein-Toolkit-like simulation directories with a known ground truth.

Every cell value encodes (variable, iteration, level, x, y, z, restart-generation) injectively, so a transposed
axis, a misplaced chunk, a wrong restart or a wrong iteration cannot go unnoticed.
Layouts: one file / one file per process  x  one variable / one group per file.
Chunk arrays are stored [z, y, x] with `ghost` ghost cells on every side; iorigin = origin of the padded
block in the padded global index space (as Carpet writes it).
"""
import itertools
import os
import numpy as np
import h5py

GROUPS = {'alp': ('ADMBASE', 'admbase-lapse'), 'betax': ('ADMBASE', 'admbase-shift'), 'betay': ('ADMBASE', 'admbase-shift'),
          'betaz': ('ADMBASE', 'admbase-shift'), 'gxx': ('ADMBASE', 'admbase-metric'), 'gxy': ('ADMBASE', 'admbase-metric'),
          'gxz': ('ADMBASE', 'admbase-metric'), 'gyy': ('ADMBASE', 'admbase-metric'), 'gyz': ('ADMBASE', 'admbase-metric'),
          'gzz': ('ADMBASE', 'admbase-metric'), 'rho': ('HYDROBASE', 'hydrobase-rho')}
VAR_ID = {v: i + 1 for i, v in enumerate(GROUPS)}
AUREL = {'alp': 'alpha', 'rho': 'rho0'}


def cell_values(var, it, rl, shape_xyz, gen=0):
    """global interior array indexed [x, y, z]"""
    nx, ny, nz = shape_xyz
    X, Y, Z = np.meshgrid(np.arange(nx), np.arange(ny), np.arange(nz), indexing='ij')
    return (VAR_ID[var] * 1e12 + gen * 1e11 + rl * 1e10 + it * 1e6 + X * 1e4 + Y * 1e2 + Z).astype(float)


def splits(n, parts):
    """cut [0, n) into `parts` unequal pieces"""
    if parts == 1:
        return [(0, n)]
    cuts = sorted({max(1, (n * (k + 1)) // parts + (1 if k % 2 else 0)) for k in range(parts - 1)})
    cuts = [c for c in cuts if 0 < c < n]
    edges = [0] + cuts + [n]
    return [(a, b) for a, b in zip(edges[:-1], edges[1:]) if b > a]


def make_sim(root, simname, layout=('onefile', 'ungrouped'), restarts=None, shape=(6, 5, 4), cuts=(1, 1, 1), ghost=2,
             rls=(0,), variables=('alp', 'betax', 'gxx'), chunk_order=None, t_of=lambda it: 1.0 + 0.5 * it, groups=None, single_as_chunk=(False, False)):
    """restarts: list of (restart number, [iterations], generation tag).  -> truth dict
    single_as_chunk = (file_0 in the name, c=0 in the key) also when there is a single piece (a one-process run)"""
    restarts = restarts or [(0, [0, 2, 4], 0)]
    proc, grouped = layout[0] == 'proc', layout[1] == 'grouped'
    nx, ny, nz = shape
    boxes = list(itertools.product(splits(nx, cuts[0]), splits(ny, cuts[1]), splits(nz, cuts[2])))
    order = list(range(len(boxes)))
    if chunk_order is not None:
        order = list(chunk_order)
    truth = {}
    for rnum, its, gen in restarts:
        d = os.path.join(root, simname, f'output-{rnum:04d}', simname)
        os.makedirs(d, exist_ok=True)
        open(os.path.join(root, simname, f'output-{rnum:04d}', simname + '.par'), 'w').write('# generated\n')
        files = {}

        def fobj(name):
            if name not in files:
                files[name] = h5py.File(os.path.join(d, name), 'w')
            return files[name]
        for var in variables:
            thorn, group = (groups or {}).get(var) or GROUPS[var]
            VAR_ID.setdefault(var, len(VAR_ID) + 1)
            base = group if grouped else var
            for it in its:
                for rl in rls:
                    G = cell_values(var, it, rl, shape, gen)
                    truth[(var, it, rl, rnum)] = G
                    Gp = np.pad(G, ghost, mode='constant', constant_values=-7.0) if ghost else G
                    for c_file, bi in enumerate(order):
                        (x0, x1), (y0, y1), (z0, z1) = boxes[bi]
                        blk = Gp[x0:x1 + 2 * ghost, y0:y1 + 2 * ghost, z0:z1 + 2 * ghost]
                        arr = np.transpose(blk, (2, 1, 0))         # stored [z, y, x]
                        multi = len(boxes) > 1
                        fname = base + (f'.file_{c_file}' if (proc and (multi or single_as_chunk[0])) else '') + '.h5'
                        key = f'{thorn}::{var} it={it} tl=0' + (' m=0' if False else '') + f' rl={rl}' + (f' c={c_file}' if (multi or single_as_chunk[1]) else '')
                        ds = fobj(fname).create_dataset(key, data=arr)
                        ds.attrs['cctk_nghostzones'] = np.array([ghost] * 3, dtype=np.int32)
                        ds.attrs['iorigin'] = np.array([x0, y0, z0], dtype=np.int32)
                        ds.attrs['time'] = float(t_of(it))
        for f in files.values():
            f.close()
    return truth


def make_checkpoints(root, simname, restart, its, perproc, cuts, shape=(6, 5, 4), ghost=2, variables=('alp', 'betax'), gen=5):
    """checkpoint files checkpoint.chkpt.it_<n>[.file_<c>].h5 of restart `restart`: time levels 0 and 1 (only tl=0 is data),
    -> truth {(var, it): array}"""
    d = os.path.join(root, simname, f'output-{restart:04d}', simname)
    os.makedirs(d, exist_ok=True)
    boxes = list(itertools.product(splits(shape[0], cuts[0]), splits(shape[1], cuts[1]), splits(shape[2], cuts[2])))
    truth = {}
    for it in its:
        files = {}
        for var in variables:
            thorn = GROUPS[var][0]
            G = cell_values(var, it, 0, shape, gen)
            truth[(var, it)] = G
            Gp = np.pad(G, ghost, mode='constant', constant_values=-7.0)
            for ci, ((x0, x1), (y0, y1), (z0, z1)) in enumerate(boxes):
                blk = Gp[x0:x1 + 2 * ghost, y0:y1 + 2 * ghost, z0:z1 + 2 * ghost]
                fn = f'checkpoint.chkpt.it_{it}' + (f'.file_{ci}' if perproc and len(boxes) > 1 else '') + '.h5'
                if fn not in files:
                    files[fn] = h5py.File(os.path.join(d, fn), 'w')
                for tl in (0, 1):
                    key = f'{thorn}::{var} it={it} tl={tl} rl=0' + (f' c={ci}' if len(boxes) > 1 else '')
                    ds = files[fn].create_dataset(key, data=np.transpose(blk if tl == 0 else blk * 0 - 3.0, (2, 1, 0)))
                    ds.attrs['cctk_nghostzones'] = np.array([ghost] * 3, dtype=np.int32)
                    ds.attrs['iorigin'] = np.array([x0, y0, z0], dtype=np.int32)
                    ds.attrs['time'] = 1.0 + 0.5 * it
        for f in files.values():
            f.close()
    return truth


def param_for(root, simname):
    return {'simulation': 'ET', 'simpath': root.rstrip('/') + '/', 'simname': simname}
