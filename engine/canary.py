"""Vacuity guards: obligations that MUST fail (and ones that must hold), run by every check.
A comparator that accepts everything, or a solver wrapper that maps every answer to `valid`, would make
all checks green; the canaries detect that.  A failing canary is a checker error (exit 3), never a violation."""


def e1_canary():
    from .e1run import Worlds
    from . import contracts as CT
    from .e1 import tens
    W = Worlds('canary')
    F, U, env = W.get('freeT', 0)
    wrong = CT.compare(tens(U['gammaup3']), U['gammadown3'])            # inverse metric != metric
    right = CT.compare(tens(U['gammadown3']), U['gammadown3'])
    st, det, stub, res = CT.run_function(env, U, 'Kup3', set(U.inputs))
    real_wrong = CT.compare(res, U['Kdown3'])                            # K^ij != K_ij for a generic metric
    return bool(wrong) and not right and st == 'ok' and bool(real_wrong), 'E1: jet comparator rejects gammaup3 == gammadown3 and Kup3 == Kdown3, accepts identity'


def symx_canary():
    import z3
    from .symx import prove
    x = z3.Int('x')
    v1, _, _ = prove([], x > 0)
    v2, _, _ = prove([x > 0], x >= 0)
    return v1 == 'invalid' and v2 == 'valid', 'E2: z3 wrapper refutes x > 0 and proves x > 0 -> x >= 0'


def run_canaries(R, which=('e1', 'symx')):
    ok_all = True
    out = []
    for w in which:
        ok, text = (e1_canary if w == 'e1' else symx_canary)()
        out.append(dict(canary=text, behaved=bool(ok)))
        ok_all = ok_all and ok
    R.extra['vacuity'] = dict(canaries=out, zero_obligations_is_an_error=True)
    if not ok_all:
        raise RuntimeError('vacuity canary misbehaved: ' + str(out))
