"""File-system / h5py model for the Aurel-format reader and writer (C13, C12).

The real functions run with `os`, `h5py`, `np` and `int` re-bound:
  * a file is a map dataset-name -> value (assumed contract of h5py, A4): `create_dataset` on an
    existing name raises (as h5py does), `del f[name]` requires presence, `f.keys()` lists names,
    `create_dataset(name, data=None)` raises TypeError (as h5py does);
  * file names are strings in which symbolic iteration numbers appear as embedded tokens
    (Z.__format__), so two names are equal iff their literal parts are and z3 says the tokens are;
  * arrays are opaque tokens (`Tok`), so contents are universally quantified;
  * iteration numbers are z3 integers; Python's own `sorted` / `set` / `in` / `==` run on them and
    fork the path on every comparison.
List lengths are concrete (bounded) -- the bound is reported by the property module.
"""
import re
import builtins
import z3

from . import symx as SX
from .symx import Z, to_z3

_TOK = re.compile('\x00(\\d+)\x00')


class Tokens:
    def __init__(self):
        self.by_id = {}
        self.by_key = {}

    def mark(self, z):
        k = z.e.get_id() if isinstance(z, Z) else id(z)
        if k not in self.by_key:
            i = len(self.by_id)
            self.by_id[i] = z
            self.by_key[k] = i
        return f'\x00{self.by_key[k]}\x00'


TOK = Tokens()


def z_format(self, spec):
    return TOK.mark(self)


def z_hash(self):
    return 0


Z.__format__ = z_format
Z.__hash__ = z_hash


def parse_name(s):
    """string with embedded tokens -> (template, [z3 exprs])"""
    toks = []

    def rep(m):
        toks.append(TOK.by_id[int(m.group(1))])
        return '\x00'
    return _TOK.sub(rep, s), toks


def same_name(a, b):
    """python bool (forks the path) : do two tokenised strings denote the same name"""
    ta, xa = parse_name(a)
    tb, xb = parse_name(b)
    if ta != tb or len(xa) != len(xb):
        return False
    for p, q in zip(xa, xb):
        if not bool(p == q):
            return False
    return True


class Tok:
    """an opaque array"""
    _n = 0

    def __init__(self, label):
        Tok._n += 1
        self.label = label
        self.n = Tok._n
        self.shape = ('shape-of-arrays-of', label.rstrip('0123456789new').split('@')[0])

    def __repr__(self):
        return f'<{self.label}>'


class DS:
    """an h5py dataset: reading gives the stored array; writing in place keeps the dataset's dtype and shape,
    i.e. the new values are CAST to the dtype of the first write (h5py semantics) -- modelled as a distinct token
    unless the very same array is written back"""

    def __init__(self, value):
        self.value = value

    @property
    def shape(self):
        return getattr(self.value, 'shape', ())

    @property
    def dtype(self):
        return ('dtype-of', id(self.value))

    def __getitem__(self, k):
        return self.value

    def __setitem__(self, k, v):
        if v is not self.value:
            t = Tok(f'cast({v!r} -> dtype of {self.value!r})')
            self.value = t


class FS:
    def __init__(self):
        self.files = []       # list of [name, dict]
        self.dirs = []
        self.log = []

    def find(self, name):
        for rec in self.files:
            if same_name(rec[0], name):
                return rec
        return None


class FileObj:
    def __init__(self, fs, name, mode):
        self.fs, self.name, self.mode = fs, name, mode
        rec = fs.find(name)
        if rec is None:
            if mode == 'r':
                raise FileNotFoundError(name)
            rec = [name, {}]
            fs.files.append(rec)
        self.rec = rec

    def __enter__(self):
        return self

    def __exit__(self, *a):
        return False

    def keys(self):
        return list(self.rec[1].keys())

    def __contains__(self, k):
        return k in self.rec[1]

    def __getitem__(self, k):
        v = self.rec[1][k]
        return v if isinstance(v, DS) else DS.__new__(DS).__class__(v) if False else _DSView(self.rec[1], k)

    def __delitem__(self, k):
        if self.mode == 'r':
            raise OSError('file opened read-only')
        del self.rec[1][k]
        self.fs.log.append(('del', self.name, k))

    def create_dataset(self, name, data=None, **kw):
        if self.mode == 'r':
            raise OSError('file opened read-only')
        if data is None:
            raise TypeError('One of data, shape or dtype must be specified')
        if name in self.rec[1]:
            raise ValueError(f'Unable to create dataset (name already exists): {name}')
        self.rec[1][name] = data
        self.fs.log.append(('create', self.name, name, data))


class _DSView(DS):
    """dataset handle bound to its slot in the file (in-place writes are visible to later reads)"""

    def __init__(self, store, key):
        self._store, self._key = store, key

    @property
    def value(self):
        return self._store[self._key]

    @value.setter
    def value(self, v):
        self._store[self._key] = v

    @property
    def attrs(self):
        return {}


class ShimH5:
    def __init__(self, fs):
        self._fs = fs

    def File(self, name, mode='r'):
        return FileObj(self._fs, name, mode)


class ShimPath:
    def __init__(self, fs):
        self._fs = fs

    def exists(self, p):
        if p.endswith('.hdf5'):
            return self._fs.find(p) is not None
        return True

    def __getattr__(self, n):
        import os
        return getattr(os.path, n)


class ShimOS:
    def __init__(self, fs):
        self.path = ShimPath(fs)
        self._fs = fs

    def makedirs(self, p, **k):
        self._fs.dirs.append(p)

    def __getattr__(self, n):
        import os
        return getattr(os, n)


class ZList(list):
    """np.array(list of symbolic ints): keeps list semantics, supports `arr - x`, abs, argmin"""

    def __sub__(self, o):
        return ZList([a - o for a in self])


class ShimNPfs:
    def __getattr__(self, n):
        import numpy
        return getattr(numpy, n)

    def shape(self, x):
        return getattr(x, 'shape', ())

    def array(self, x, *a, **k):
        if isinstance(x, DS):
            return x.value
        if isinstance(x, (Tok,)):
            return x
        if isinstance(x, (list, tuple)):
            return ZList(x)
        return x

    def asarray(self, x, *a, **k):
        return self.array(x)

    def sort(self, x):
        return ZList(sorted(x))

    def abs(self, x):
        if isinstance(x, list):
            return ZList([abs(a) for a in x])
        return abs(x)

    def argmin(self, x):
        best = 0
        for i in range(1, len(x)):
            if bool(x[i] < x[best]):
                best = i
        return best


def shim_int(v, *a):
    if isinstance(v, Z):
        return v
    return builtins.int(v, *a)


def rebind_reading(fs):
    """the real aurel.reading functions with os / h5py / np / int re-bound to the model"""
    import types
    import aurel.reading as Rm
    g = dict(Rm.__dict__)
    g.update(os=ShimOS(fs), h5py=ShimH5(fs), np=ShimNPfs(), int=shim_int)
    out = {}
    for n, f in list(Rm.__dict__.items()):
        if isinstance(f, types.FunctionType) and f.__module__ == Rm.__name__:
            nf = types.FunctionType(f.__code__, g, f.__name__, f.__defaults__, f.__closure__)
            nf.__kwdefaults__ = f.__kwdefaults__
            g[n] = nf
            out[n] = nf
    return out, g
