"""./check <ID> [--tier quick|thorough] [--replay file]"""
import argparse
import importlib
import os
import sys
import traceback


def main():
    ap = argparse.ArgumentParser()
    ap.add_argument('pid')
    ap.add_argument('--tier', default=os.environ.get('VERIF_TIER', 'quick'))
    ap.add_argument('--replay', default=None)
    a = ap.parse_args()
    seed = int(os.environ.get('VERIF_SEED', '0') or 0)
    try:
        mod = importlib.import_module(f'props.{a.pid}')
        if a.replay:
            sys.exit(mod.replay(a.replay))
        from engine.run import Run
        R = Run(a.pid, a.tier, seed, level=getattr(mod, 'LEVEL', 'proof'))
        mod.run(R)
        sys.exit(R.finish())
    except SystemExit:
        raise
    except Exception:
        traceback.print_exc()
        print(f'[{a.pid}] CHECKER-CRASH')
        sys.exit(3)


if __name__ == '__main__':
    main()
