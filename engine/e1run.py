"""Drivers shared by the tensor properties: scenarios, per-function obligations, chain runs."""
import random
import time
import numpy as _np

from .jets import Field, J, CJ, Undecided, NeedResample, OrderExhausted, same
from .e1 import Env, tens, untens, discover_guards
from .universe import Universe, SpecUnavailable, arr, ozeros
from . import contracts as CT

SCENARIOS = {
    # generic smooth 4-metric, T := (G + Lambda g)/kappa supplied as Tdown4 (every metric is a solution)
    'onshell': dict(mode='onshell', matter='T', input_form='tensor'),
    'onshell_comp': dict(mode='onshell', matter='T', input_form='components'),
    # Ricci-flat data (vacuum flag consistent with the data: T = 0, Lambda = 0)
    'onshell_vac': dict(mode='onshell', matter='none', input_form='tensor', vacuum=True),
    'onshell_fluidtetrad': dict(mode='onshell', matter='T', input_form='tensor', tetrad='fluid'),
    # free 3+1 data (not tied to a 4-metric) with a moving perfect fluid
    'fluid': dict(mode='free', matter='fluid', input_form='tensor', order=1),
    'fluid_comp': dict(mode='free', matter='fluid', input_form='components', order=1),
    # the same with second-order jets: for functions that differentiate twice (only used by the cache-state comparison)
    'fluid_o2': dict(mode='free', matter='fluid', input_form='tensor', order=2),
    # zero sets of the fluid variables (safe_division divisors): vacuum regions with pressure, fluid at rest
    'fluid_rho0zero': dict(mode='free', matter='fluid', input_form='tensor', order=1, fluid_zero=('rho0',)),
    'fluid_atrest': dict(mode='free', matter='fluid', input_form='tensor', order=1, fluid_zero=('v',)),
    'fluid_dust': dict(mode='free', matter='fluid', input_form='tensor', order=1, fluid_zero=('press', 'eps')),
    # free data, stress-energy supplied directly
    'freeT': dict(mode='free', matter='T', input_form='tensor', order=1),
    # only the shift component beta^y supplied (x, z default to 0)
    'shift_y': dict(mode='free', matter='none', input_form='components', shift='y', order=1),
    'shift_x': dict(mode='free', matter='none', input_form='components', shift='x', order=1),
    'shift_z': dict(mode='free', matter='none', input_form='components', shift='z', order=1),
    'noshift': dict(mode='free', matter='none', input_form='tensor', shift='zero', order=1),
    # the initial slice of a Gamma-driver evolution: the shift vanishes (and is not supplied) but its time derivative does not
    'noshift_dtshift': dict(mode='free', matter='none', input_form='tensor', shift='zero', dtshift_free=True, order=1),
    # nothing supplied at all: every quantity must follow from the documented defaults
    'default': dict(mode='free', matter='none', input_form='none', shift='zero', lapse='one', with_K=False,
                    flat=True, order=1),
}


def shape_inputs(scen, U, F):
    """which inputs the user supplies in this scenario (shared by the exact worlds and the float worlds of the replay)"""
    if scen in ('shift_x', 'shift_y', 'shift_z'):
        keep = scen[-1]
        U.drop_inputs(*[f'beta{a}' for a in 'xyz' if a != keep], 'dtbetax', 'dtbetay', 'dtbetaz')
        U.base['dtbeta'] = arr([J.const(F, 0)] * 3)
    if scen == 'noshift':
        U.drop_inputs('betaup3', 'dtbetaup3')
    if scen == 'noshift_dtshift':
        U.drop_inputs('betaup3')
    if scen == 'default':
        U.drop_inputs('alpha', 'dtalpha')


def make_world(scen, seed):
    """-> (F, U, env); retries the random point when a radical is a non-residue."""
    kw = dict(SCENARIOS[scen])
    last = None
    for attempt in range(60):
        F = Field('p')
        rng = random.Random(f'{scen}/{seed}/{attempt}')
        try:
            U = Universe(F, rng, **kw)
            shape_inputs(scen, U, F)
            return F, U, Env(F)
        except NeedResample as e:
            last = e
    raise Undecided(f'could not sample scenario {scen}: {last}')


class Worlds:
    """lazily built worlds (scenario, point index) shared by all obligations of a run."""

    def __init__(self, seed):
        self.seed = seed
        self.cache = {}

    def get(self, scen, k):
        if (scen, k) not in self.cache:
            self.cache[(scen, k)] = make_world(scen, f'{self.seed}.{k}')
        return self.cache[(scen, k)]

    def fresh(self, scen, k, attempt):
        w = make_world(scen, f'{self.seed}.{k}.r{attempt}')
        self.cache[(scen, k)] = w
        return w


def path_label(present, g):
    ks = sorted(set(present) & g['keys'])
    return '+'.join(ks) if ks else '-'


def function_obligations(R, worlds, name, scens, npoints=1, prop_tag='ensures', replay_factory=None,
                         backend='pit-exact', skip_paths=None):
    """One obligation per (function, scenario, cache-state path): real body == Spec,
    plus its frame obligation.  Returns number of obligations generated."""
    import aurel.core as C
    real = getattr(C.AurelCore, name)
    R.under_contract(real, f'aurel.core.AurelCore.{name}')
    g = discover_guards(real)
    if g['unknown']:
        R.ob(f'core.{name}:guards-understood', name, 'undecided', 'ast', 0.0,
             'guard expressions not understood: ' + '; '.join(g['unknown']))
        return 1
    made = 0
    for scen in scens:
        F, U, env = worlds.get(scen, 0)
        if name in U.inputs:
            continue
        try:
            for attempt in range(1, 14):
                try:
                    U[name]
                    break
                except NeedResample:
                    F, U, env = worlds.fresh(scen, 0, 100 + attempt)
            else:
                raise Undecided('resampling exhausted in spec evaluation')
        except (SpecUnavailable, OrderExhausted):
            # no textbook value in this scenario (e.g. a time derivative off-shell): the function is still under the obligation
            # that its value does not depend on WHICH of its guard keys happen to be cached (the states describe the same input)
            if g['keys']:
                made += _cache_state_independence(R, worlds, name, scen, g, backend)
            continue
        except (Undecided, NeedResample) as e:
            R.ob(f'core.{name}[{scen}]:spec', name, 'undecided', backend, 0.0, f'spec evaluation: {e}')
            made += 1
            continue
        _, paths = CT.guard_paths(env, name, U)
        for present in paths:
            lab = path_label(present, g)
            if skip_paths and skip_paths(scen, present):
                continue
            R.paths += 1
            obname = f'core.{name}[{scen}|{lab}]'
            t0 = time.time()
            bad, frame, undec, raised = set(), None, None, None
            skip = False
            for k in range(npoints):
                for attempt in range(12):
                    F, U, env = worlds.get(scen, k) if attempt == 0 else worlds.fresh(scen, k, attempt)
                    try:
                        spec = U[name]
                        pres = set(present) | set(U.inputs)
                        st, det, stub, res = CT.run_function(env, U, name, pres)
                        if st == 'ok':
                            bad |= {c for c, _ in CT.compare(res, spec)}
                        elif st == 'frame':
                            frame = det
                        else:
                            raised = det
                        break
                    except NeedResample:
                        continue
                    except SpecUnavailable as e:
                        skip = True
                        undec = f'callee spec unavailable: {e}'
                        break
                    except Undecided as e:
                        undec = str(e)
                        break
                else:
                    undec = 'resampling exhausted'
            secs = time.time() - t0
            if skip and not bad and not frame and not raised:
                R.notes.append(f'{obname}: not generated ({undec})')
                continue
            made += 2
            rp = ((lambda o, a=(name, scen, sorted(present)): replay_factory(o, *a)) if replay_factory
                  else (lambda o, a=(name, scen, sorted(present)): _native_function(*a, worlds.seed)))
            if undec and not bad and not frame and not raised:
                R.ob(obname + ':' + prop_tag, name, 'undecided', backend, secs, undec)
            elif raised:
                R.ob(obname + ':' + prop_tag, name, 'refuted', backend, secs, 'raised: ' + raised, ['raised'],
                     replay=rp)
            elif bad:
                R.ob(obname + ':' + prop_tag, name, 'refuted', backend, secs,
                     f'code != Spec_{name}', sorted(bad), witness=dict(scenario=scen, present=sorted(present),
                                                                    seed=worlds.seed), replay=rp)
            elif frame:
                pass
            else:
                R.ob(obname + ':' + prop_tag, name, 'discharged', backend, secs)
            if frame:
                R.ob(obname + ':frame', name, 'refuted', 'numpy-readonly', secs, frame, ['frame'],
                     witness=dict(scenario=scen, present=sorted(present)), replay=rp)
            else:
                R.ob(obname + ':frame', name, 'discharged', 'numpy-readonly', 0.0)
    return made


def _cache_state_independence(R, worlds, name, scen, g, backend):
    """all guard paths of `name` in `scen` give the same value (callees answered by their specs)"""
    t0 = time.time()
    results = []
    for sc in (scen, scen + '_o2'):
        if sc not in SCENARIOS:
            continue
        F, U, env = worlds.get(sc, 0)
        try:
            _, paths = CT.guard_paths(env, name, U)
        except Exception:
            return 0
        if len(paths) < 2:
            return 0
        results = []
        exhausted = False
        for present in paths:
            try:
                st, det, stub, res = CT.run_function(env, U, name, set(present) | set(U.inputs))
            except OrderExhausted:
                exhausted = True
                continue
            except (SpecUnavailable, Undecided, NeedResample):
                continue
            if st == 'ok':
                results.append((present, res))
        if len(results) >= 2 or not exhausted:
            break
    if len(results) < 2:
        return 0
    ref_p, ref = results[0]
    bad = []
    for present, res in results[1:]:
        try:
            diff = CT.compare(res, CT.untens_tree(ref))
        except Exception as e:
            diff = [('shape', str(e))]
        if diff:
            bad.append(f'cached {path_label(present, g)} vs cached {path_label(ref_p, g)}: components {sorted({c for c, _ in diff})[:6]}')

    used_scen = sc
    states = [sorted(set(p_) & set(g['keys'])) for p_, _ in results]

    def rp(o):
        """the real AurelCore, once per cache state: the guard keys of that state are requested first, then the quantity"""
        from . import native
        import numpy as _np2
        Ff, Uf, envf = native.float_world(used_scen, worlds.seed)
        vals = []
        for st_keys in states:
            rel, offs = native.make_native(Uf, clear_cache_every_nbr_calc=10 ** 6)      # no eviction between the two requests
            for k, v in Uf.inputs.items():
                rel.data[k] = native.field_of(v, offs)
            rel.freeze_data()
            for k in st_keys:
                rel[k]
            out = _np2.asarray(rel[name])
            ic = native.IC
            vals.append(out[..., ic, ic, ic])
        ref_v = vals[0]
        worst, wi = 0.0, 0
        for i_, v in enumerate(vals[1:], 1):
            d = float(_np2.max(_np2.abs(v - ref_v))) / (1.0 + float(_np2.max(_np2.abs(ref_v))))
            if d > worst:
                worst, wi = d, i_
        txt = (f'real AurelCore (fd_order 8, 13^3 grid, scenario {used_scen}): rel[{name!r}] requested after {states[wi] or "nothing"} vs after '
               f'{states[0] or "nothing"}: relative difference {worst:.3e}')
        return worst > 1e-6, txt
    R.ob(f'core.{name}[{scen}]:same value in every cache state of its guard keys', name, 'refuted' if bad else 'discharged', backend,
         time.time() - t0, '; '.join(bad[:3]) or f'{len(results)} cache states agree', bad[:6] or None, replay=rp)
    return 1


def _native_function(name, scen, present, seed):
    from . import native
    return native.replay_function(name, scen, present, seed)


def all_keys():
    import aurel.core as C
    return list(C.descriptions.keys())
