#!/bin/bash
# Parallel variant of seeds_regress.sh: every seeded change is applied to its own scratch worktree of /repo (under /tmp, removed
# afterwards) and the owning check runs against it with VERIF_REPO / VERIF_OUT, so /repo and /verif/evidence are not touched.
# usage: tools/seeds_parallel.sh <jobs> [seed-dir-name ...]
cd /verif
jobs=${1:-6}; shift
seeds=("$@"); [ ${#seeds[@]} -eq 0 ] && seeds=($(ls -d seeded/*/ | xargs -n1 basename | grep -v harmless))
one() {
  s=$1; id=${s:0:3}; wt=/tmp/wt_seed_$s; out=/tmp/vout_seed_$s
  git -C /repo worktree add --detach $wt HEAD -q 2>/dev/null || { echo "$s: worktree failed"; return; }
  if git -C $wt apply /verif/seeded/$s/patch.diff 2>/dev/null; then
    mkdir -p $out
    res=$(VERIF_REPO=$wt VERIF_OUT=$out ./check $id 2>&1); rc=$?
    nv=$(echo "$res" | grep -c '^VIOLATION'); nr=$(echo "$res" | grep '^VIOLATION' | grep -vc 'no-failing-input-found')
    if [ $rc -eq 1 ] && [ $nv -gt 0 ]; then echo "$s: $id exit=1 violations=$nv replayed=$nr  OK"; else echo "$s: $id exit=$rc violations=$nv  MISSED"; fi
  else echo "$s: patch does not apply -- SKIP"; fi
  git -C /repo worktree remove --force $wt 2>/dev/null; rm -rf $out
}
export -f one
printf '%s\n' "${seeds[@]}" | xargs -P $jobs -I{} bash -c 'one {}'
git -C /repo worktree prune
