#!/usr/bin/env python3
"""regenerates /verif/MANIFEST.json from the table below (run after registering a check)."""
import json, os
ROOT = os.path.dirname(os.path.dirname(os.path.abspath(__file__)))
E1 = ('contract-based deductive verification of the real functions: sidecar contracts (Spec functions in '
      'engine/universe.py), obligations generated per function x cache-state path by running the real code objects '
      '(globals np/maths re-bound) on truncated-jet scalars with callees answered by their contracts; discharged by '
      'exact polynomial-identity testing over F_p (2^61-1); counterexamples replayed natively on the unmodified code')
TB = ('A1 exact-real arithmetic; A2 numpy primitive semantics; A3 consistency lemma (jet equality + C07 => convergence at '
      'the scheme order); A5 textbook specs transcribed correctly; A6 CPython/rebinding; A7 generic-point semantics; '
      'A8 Schwartz-Zippel error < 2^-45 per obligation point')
CHECKS = {
 'C04': dict(cat='proof', sec='3/C04', text='Every function between the 3+1 inputs and the 4D curvature keys carries a contract (result == textbook index expression of its callees\' contracts); the top-level postconditions are the textbook 4D objects of the generic 4-metric jet g_{mu nu}(t,x,y,z) (non-zero shift, non-unit lapse, non-diagonal), decided for all inputs by PIT on jets; the real call chain is checked against the same specs. Unbounded in inputs/resolution (A3+C07), Lambda symbolic.'),
 'C05': dict(cat='proof', sec='3/C05', text='Contracts on the spatial Christoffel/Riemann/Ricci functions, the BSSNOK split and every index pattern of s_covd, st_covd, s_div, s_curl and Lie_beta (all weights); specs are generic-rank textbook formulas; lemmas (metric compatibility, raising commutes with D) on spec and real chain.'),
 'C06': dict(cat='proof', sec='3/C06', text='On the generic on-shell universe (T := (G+Lambda g)/kappa) the postconditions are Hamiltonian = 0, Momentum = 0 and dtX == d/dt Spec_X computed by differentiating the spec along t in the jet algebra.'),
 'C09': dict(cat='proof', sec='3/C09', text='Contracts on the fluid 4-velocity, projector, stress-energy tensor, Eulerian projections and conserved densities against the textbook perfect-fluid formulas (moving fluid, shift, non-diagonal metric; W = (1-v^2)^(-1/2) exactly), and with T supplied directly.'),
 'C10': dict(cat='proof', sec='3/C10', text='Contracts on both branches of st_Weyl_down4 (frame + value), the 3+1 E/B formulas vs. contractions of the textbook Weyl tensor, Weyl scalars on the served null tetrad, invariants; both tetrad choices.'),
 'C03': dict(cat='proof', sec='3/C03', engine='E2 symx (z3)', text='cleanup_cache, __getitem__, freeze_data, load_data and get_size under contract. The real statements run on a symbolic instance (data / last_accessed as z3 maps, importance as a non-negative array, all settings and grid sizes symbolic); the four loops of cleanup_cache are cut out by ordinal and verified through loop contracts (foreach/filter, foreach/paired-delete, while with invariant Rel + termination variant, arg-max fold invariant). Proved for all histories by induction: no KeyError, frozen entries never selected/deleted, only whole unfrozen entries last used > 1 calculation ago are removed, age table subset of cache, termination; __getitem__ stores exactly func() and returns it.', note='A1, A6, A9; finite-set cardinality facts for the variant; requires importance >= 0, settings positive, no manual deletion from data; get_size >= 0 by structural induction on its AST (nbytes/getsizeof >= 0 trusted)', tech='Hoare-style verification conditions from the real statements (mechanically extracted loop bodies + loop contracts), z3 with quantified array invariants; native random-history harness only replays counter-models'),
 'C07': dict(cat='proof', sec='3/C07', engine='E2 symx (z3)', text='The 12 stencils, fd_map, d3_onesided/periodic/symmetric, d3x/d3y/d3z and the tensor wrappers are executed (real code objects, numpy re-bound to an index-function array model) on symbolic arrays of symbolic size; z3 proves for ALL N >= N_min (computed: 3p/2, p/2, p/2+1), ALL grid points, all three axes of a non-cubic grid and orders 2,4,6,8 that every output sample is the linear combination with the unique weights satisfying the order conditions, with wrap/mirror index maps and every read index in range.', note='A1 rational arithmetic for weights; A2 numpy slicing/concatenate/transpose semantics as modelled in engine/symx.py (cross-checked natively by the replay harness); Taylor theorem for "exact on degree <= p => order p"', tech='symbolic execution of the real code on z3-backed arrays (unbounded N, i); z3 discharges every verification condition'),
 'C08': dict(cat='proof', sec='3/C08', text='Closed-form determinant/inverse vs. Leibniz / Gauss-Jordan on generic symmetric matrices (array and list forms), populate_4Riemann placement and symmetries, all algebraic AurelCore keys against their specs, and the identity list of the property (inverse x metric = 1, det g = -alpha^2 det gamma, n.n = -1, raise/lower, trace-free, unit conformal determinant, ...) as lemmas on spec and real chain. safe_division: exhaustive type-dispatch x broadcast enumeration with a finite value set (bounded, not counted as proved).', note=TB + '; safe_division value set finite (bounded); conditioning for badly scaled inputs is outside this family'),
 'C01': dict(cat='proof', sec='3/C01', text='O1: for every documented key, every input scenario (tensor / component / partial / default inputs, fluid or T) and every reachable cache state of the guard keys found in its AST, the real body returns Spec_k(In) when callees return their specs (CacheInv); O2: __getitem__/cleanup_cache preserve CacheInv (E2); induction over histories gives history independence for all histories and cache settings. Real histories under aggressive eviction are additionally explored (bounded cross-check).', note=TB + '; requires Frozen(In) and OnShell(In) as stated in DESIGN 3/C01'),
 'C16': dict(cat='proof', sec='3/C16', engine='E2 symx (z3)', text='The real FiniteDifference.__init__ runs on symbolic parameters (all integer N >= 1, all real mins / spacings): N points per axis at min + i d, N attributes, extents = last point, all meshes of shape (Nx,Ny,Nz), stacks (3,...), mask_len per order incl. fallback; the real Cartesian<->spherical methods run on pointwise symbolic reals with sqrt/arccos/sin/cos uninterpreted up to five listed facts (round trip both ways, branches y=0&x<0, rho=0, r=0); cutoffmask/cutoffmask2 for ranks 1-3 and all lengths.', note='A1: x_i = min + i d over the reals; binary64 deviation <= 1 ulp per operation reported, not proved. numpy arange(N)/meshgrid contracts (A2). Trig facts listed in evidence.', tech='symbolic execution of the real constructor and conversion methods on z3-backed values; z3 (LIA / NRA) discharges every verification condition'),
 'C19': dict(cat='proof', sec='3/C19', text='Contracts on the kinematic chain for the default (Eulerian) fluid state against nabla_mu u_nu computed from the textbook 4D connection; property-level identities theta = -K, sigma = -A, omega = 0, a_i = D_i ln alpha, a.n = 0 as lemmas.'),
}
def main():
    m = dict(version=1, setup_cmd='./setup.sh',
             hooks=dict(guard='ROBYNLM_AUREL_VERIF', enable='no hooks needed: contracts are sidecar files under /verif; /repo is read as is (only unguarded fix: commits)',
                        baseline_off_cmd='cd /repo && /venv/bin/python -m pytest -ra -q -p no:cacheprovider --timeout=900',
                        source_commits=[], add_only=True),
             engines=[dict(name='E1/E3 jets', path='engine/', serves_properties=sorted(CHECKS), kind_free_text=E1)],
             checks=[], not_applicable=[])
    for pid, c in sorted(CHECKS.items()):
        m['checks'].append(dict(property_id=pid, quick_cmd=f'./check {pid} --tier quick', thorough_cmd=f'./check {pid} --tier thorough',
                                evidence_file=f'evidence/{pid}.json', replay_cmd_template=f'./check {pid} --replay {{path}}',
                                engine=c.get('engine', 'E1/E3 jets'),
                                level_claimed=dict(category=c['cat'], text=c['text'], design_ref=c['sec']),
                                level_note=c.get('note', TB), technique=c.get('tech', 'contracts + verification conditions from the real code, discharged by exact ring identity testing (self-built; z3 for integer/sequence code)')))
    for i in range(1, 21):
        pid = f'C{i:02d}'
        if pid not in CHECKS:
            m['not_applicable'].append(dict(property_id=pid, reason=NA.get(pid, 'check not yet registered in this build (work in progress)')))
    json.dump(m, open(os.path.join(ROOT, 'MANIFEST.json'), 'w'), indent=1)
NA = {}
if __name__ == '__main__':
    main()
