#!/bin/bash
# runs every registered check (tier $1, default quick) on the current /repo tree, in parallel
cd "$(dirname "$0")/.."
tier=${1:-quick}
ids=$(.venv/bin/python -c "import json;print(' '.join(c['property_id'] for c in json.load(open('MANIFEST.json'))['checks']))")
mkdir -p /tmp/verif_runall
for id in $ids; do ( ./check $id --tier $tier > /tmp/verif_runall/$id.log 2>&1; echo "$id exit=$?" ) & done
wait
for id in $ids; do grep -E "^\[$id\]|VIOLATION|KNOWN-FINDING|UNDECIDED|CRASH" /tmp/verif_runall/$id.log | head -5; done
.venv/bin/python - <<'P'
import json, jsonschema, glob
sch = json.load(open('/root/.vp/EVIDENCE.schema.json'))
for f in sorted(glob.glob('evidence/*.json')):
    try:
        jsonschema.validate(json.load(open(f)), sch)
    except Exception as e:
        print('INVALID', f, str(e)[:200])
jsonschema.validate(json.load(open('MANIFEST.json')), json.load(open('/root/.vp/MANIFEST.schema.json')))
print('schemas ok')
P
