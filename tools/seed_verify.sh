#!/bin/bash
# usage: seed_verify.sh <worktree> <seed-name> <check ids...>
# confirms a seeded change (demo fails with / passes without, test suite unchanged) and runs our checks on it
wt=$1; name=$2; shift 2
dst=/verif/seeded/$name
mkdir -p $dst
cp $wt/patch.diff $wt/demo.py $wt/meta.json $dst/ 2>/dev/null
cd $wt
echo "== demo with change:"; PYTHONPATH=$wt/src timeout 600 /venv/bin/python demo.py > /tmp/seed_demo_with.log 2>&1; echo "exit=$?"; tail -2 /tmp/seed_demo_with.log
git apply -R patch.diff
echo "== demo without change:"; PYTHONPATH=$wt/src timeout 600 /venv/bin/python demo.py > /tmp/seed_demo_without.log 2>&1; echo "exit=$?"; tail -1 /tmp/seed_demo_without.log
git apply patch.diff
echo "== test suite with change:"; PYTHONPATH=$wt/src /venv/bin/python -m pytest -q -p no:cacheprovider --timeout=900 2>&1 | tail -1
echo "== our checks with the change applied to /repo:"
git -C /repo apply $dst/patch.diff || { echo "patch does not apply"; exit 1; }
for id in "$@"; do (cd /verif && ./check $id 2>&1 | grep -E "^\[$id\]|VIOLATION|KNOWN|UNDEC|CRASH" | sed 's/replay=.*replay\//replay=/' | head -6); done
git -C /repo checkout -- .
git -C /repo status --short | head -3
