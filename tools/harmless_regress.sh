#!/bin/bash
# No-false-alarm regression: the behaviour-preserving refactorings in seeded/harmless/*.diff (written by independent
# sub-agents, each with an old-vs-new equivalence script) are applied to /repo together (never committed); every check
# must still exit 0.  /repo is restored afterwards.
cd /verif
[ -z "$(git -C /repo status --porcelain -- src)" ] || { echo "/repo/src is not clean; refusing"; exit 2; }
for p in seeded/harmless/*.diff; do git -C /repo apply --3way /verif/$p 2>/dev/null || git -C /repo apply /verif/$p || { echo "$p does not apply -- skipped"; }; done
git -C /repo reset -q
tools/run_all.sh ${1:-quick} 2>&1 | grep -E "^\[C|VIOLATION|UNDECIDED|CRASH|exit="
rc=0
for f in /tmp/verif_runall/C*.log; do grep -q "VIOLATION\|UNDECIDED\|CHECKER-CRASH" $f && { echo "NOT GREEN: $f"; rc=1; }; done
git -C /repo checkout -- src
exit $rc
