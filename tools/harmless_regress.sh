#!/bin/bash
# No-false-alarm regression: the behaviour-preserving refactorings in seeded/harmless/*.diff (written by independent
# sub-agents, each with an old-vs-new equivalence script) are applied to /repo in two sets (H1-H4, H5-H8: the sets
# rewrite the same functions differently), never committed; every check must still exit 0.  /repo is restored afterwards.
# usage: tools/harmless_regress.sh [quick|thorough] [set ...]     (sets: A = H1..H4, B = H5..H8, C = H9..H12)
cd /verif
tier=${1:-quick}; shift
sets=("$@"); [ ${#sets[@]} -eq 0 ] && sets=(A B C)
rc=0
for set in "${sets[@]}"; do
  [ -z "$(git -C /repo status --porcelain -- src)" ] || { echo "/repo/src is not clean; refusing"; exit 2; }
  if [ $set = A ]; then names="H1 H2 H3 H4"; elif [ $set = B ]; then names="H5 H6 H7 H8"; else names="H9 H10 H11 H12"; fi
  for n in $names; do
    p=seeded/harmless/$n.diff; [ -f $p ] || continue
    git -C /repo apply --3way /verif/$p 2>/dev/null || git -C /repo apply /verif/$p || echo "$p does not apply -- skipped"
  done
  git -C /repo reset -q
  echo "== set $set ($names) applied: $(git -C /repo status --porcelain -- src | wc -l) files changed"
  tools/run_all.sh $tier 2>&1 | grep -E "^\[C|VIOLATION|UNDECIDED|CRASH" | grep -v "refuted=0 (known 0) undecided=0" | grep -v "refuted=1 (known 1) undecided=0"
  for f in /tmp/verif_runall/C*.log; do grep -q "^VIOLATION\|^UNDECIDED\|CHECKER-CRASH" $f && { echo "NOT GREEN under set $set: $f"; rc=1; }; done
  git -C /repo checkout -- src
done
exit $rc
