#!/bin/bash
# Regression over the seeded property-breaking changes: every patch in seeded/*/ is applied to /repo in turn
# (never committed), the owning check(s) named by the directory prefix and meta.json["property"] must exit 1 with a
# VIOLATION line, and /repo is restored.  Also asserts that the unchanged tree is clean before and after.
# usage: tools/seeds_regress.sh [seed-dir-name ...]
cd /verif
[ -z "$(git -C /repo status --porcelain -- src)" ] || { echo "/repo/src is not clean; refusing"; exit 2; }
seeds=("$@"); [ ${#seeds[@]} -eq 0 ] && seeds=($(ls -d seeded/*/ | xargs -n1 basename))
fail=0
for s in "${seeds[@]}"; do
  d=seeded/$s
  [ -f $d/patch.diff ] || continue
  ids=$(.venv/bin/python - "$d" <<'P'
import json,sys,re,os
d=sys.argv[1]
ids=re.findall(r'C\d\d', os.path.basename(d))[:1]
try:
    m=json.load(open(d+'/meta.json'))
    ids+= [i for i in re.findall(r'C\d\d', str(m.get('property',''))) if i not in ids]
except Exception: pass
print(' '.join(ids[:1]))
P
)
  git -C /repo apply /verif/$d/patch.diff || { echo "$s: patch does not apply (code moved) -- SKIP"; continue; }
  for id in $ids; do
    out=$(./check $id 2>&1); rc=$?
    nv=$(echo "$out" | grep -c '^VIOLATION')
    nr=$(echo "$out" | grep '^VIOLATION' | grep -vc 'no-failing-input-found')
    if [ $rc -eq 1 ] && [ $nv -gt 0 ]; then echo "$s: $id exit=1 violations=$nv replayed=$nr  OK"; else echo "$s: $id exit=$rc violations=$nv  MISSED"; fail=1; fi
  done
  git -C /repo checkout -- src
done
[ -z "$(git -C /repo status --porcelain -- src)" ] || { echo "/repo/src not restored"; exit 2; }
exit $fail
