#!/bin/bash
# builds the overlay interpreter: python 3.12 venv + z3-solver/cvc5/jsonschema from the offline
# wheelhouse + a .pth to /venv's site-packages (numpy, sympy, scipy, h5py, mpmath, yaml, aurel -> /repo/src)
set -e
cd "$(dirname "$0")"
rm -rf .venv
/venv/bin/python -m venv .venv
PIP_NO_INDEX=1 .venv/bin/pip install -q --no-index --find-links /opt/veriftools/wheels z3-solver cvc5 jsonschema
echo "import site; site.addsitedir('/venv/lib/python3.12/site-packages')" > .venv/lib/python3.12/site-packages/_aurel_overlay.pth
.venv/bin/python -c "import z3, cvc5, numpy, sympy, h5py, aurel, jsonschema; print('overlay ok', z3.get_version_string())"
