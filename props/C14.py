"""C14 over_time equals independent per-step computation, correctly ordered.

The real over_time / process_single_timestep run with AurelCore replaced by its contract stub
(props/timevc.py): rel[v] is the opaque value F_v(inputs of the instance), so "computed from this step's
inputs alone, on a fresh instance" is checked for ALL array contents.  Estimators are replaced by tagging
functions in the driver runs (so "the estimator was applied to the array of the same row and key" is
checked for all contents) and each entry of the real est_functions table is checked against its
definition separately.  Bounded: number of steps <= 3 (4 thorough), all row permutations, the four
temporal keys, vars in {names, custom, mixed}, estimate lists, every split of the requests into two
successive calls.  Labelled bounded in shape; contents are universally quantified.
"""
import itertools
import time
import numpy as np

from props import timevc
from props.timevc import Arr, Val, RecCore, DESCR, custom

LEVEL = 'other'


def base_inputs(v):
    """the per-step input arrays a value was computed from"""
    if isinstance(v, Val):
        out = set()
        for x in v.inputs.values():
            if isinstance(x, Arr):
                out.add((x.name, x.step))
            elif isinstance(x, tuple):
                for y in x:
                    out |= base_inputs(y)
            elif isinstance(x, Val):
                out |= base_inputs(x)
        return out
    return set()


class TagFloat(float):
    """a scalar returned by a custom estimator that remembers the array it was applied to"""
    def __new__(cls, src):
        o = float.__new__(cls, 0.0)
        o.src = src
        return o


def sem(v):
    """semantic identity of a table entry"""
    if isinstance(v, TagFloat):
        return ('myest', sem(v.src))
    if isinstance(v, Val):
        return ('val', v.key, tuple(sorted(base_inputs(v))))
    if isinstance(v, Arr):
        return ('arr', v.name, v.step)
    if isinstance(v, tuple) and v and v[0] in ('est', 'myest'):
        return (v[0], v[1] if v[0] == 'est' else None, sem(v[-1]))
    return ('raw', v)


def table(d):
    return {k: [sem(x) for x in d[k]] for k in d}


def make_data(nsteps, perm, tkey, nin=2):
    steps = list(perm)
    data = {tkey: [10 * s + 5 for s in steps]}
    for k in range(nin):
        data[f'in{k}'] = [Arr(f'in{k}', s) for s in steps]
    return data


def driver_obligations(R, tier):
    fns, g, T = timevc.rebind_time()
    for n in ('over_time', 'process_single_timestep', 'validate_variable_function', 'validate_estimation_function'):
        R.under_contract(getattr(T, n))
    fd = type('FD', (), dict(Nx=2, Ny=2, Nz=2))()
    nmax = 3 if tier == 'quick' else 4
    myest = lambda a: TagFloat(a)
    var_sets = [[DESCR[0]], [DESCR[0], DESCR[1]], [{'c1': custom('c1', 2)}], [DESCR[1], {'c1': custom('c1', 1)}, DESCR[2]]]
    est_sets = [[], ['max'], ['max', 'mean', {'myest': myest}]]
    checks = {}

    def note(label, ok, detail=''):
        c = checks.setdefault(label, [0, None])
        c[0] += 1
        if not ok and c[1] is None:
            c[1] = detail
    ncases = 0
    import random as _random
    rng = _random.Random(1234)
    plan = []
    for nsteps in range(1, nmax + 1):
        perms = list(itertools.permutations(range(nsteps)))
        if nsteps == 4 and tier != 'quick':
            perms = perms[::3]
        plan += [(nsteps, perm) for perm in perms]
    # longer tables, a few row orders each (a defect that needs more than 3-4 steps, or a two-digit position)
    for nsteps in ((5, 7, 12) if tier == 'quick' else (5, 6, 7, 9, 12, 20)):
        plan += [(nsteps, tuple(reversed(range(nsteps))))] + [(nsteps, tuple(rng.sample(range(nsteps), nsteps))) for _ in range(2)]
    for nsteps, perm in plan:
        if True:
            for tkey in (('it',) if (nsteps > 2 and tier == 'quick') else ('it', 'iteration', 't', 'time')):
                for vars_ in var_sets:
                    for est in est_sets:
                        ncases += 1
                        RecCore.instances.clear()
                        data = make_data(nsteps, perm, tkey)
                        try:
                            out = fns['over_time'](data, fd, vars=list(vars_), estimates=list(est), verbose=False)
                        except Exception as e:
                            note('over_time does not raise', False, f'{type(e).__name__}: {e} (steps={perm}, vars={vars_}, est={est})')
                            continue
                        ctx = f'steps given as {perm}, temporal key {tkey}, vars={vars_}, est={est}'
                        tk = out[tkey]
                        note('rows ordered by the temporal key', list(tk) == sorted(tk), ctx)
                        order = [int((t - 5) // 10) for t in tk]
                        note('one row per time step', len(tk) == nsteps and sorted(order) == list(range(nsteps)), ctx)
                        for k in ('in0', 'in1'):
                            note('input columns preserved and permuted with the rows',
                                 k in out and [sem(x) for x in out[k]] == [('arr', k, s) for s in order], ctx + f' column {k}')
                        vnames = [v for v in vars_ if isinstance(v, str)] + [k for v in vars_ if isinstance(v, dict) for k in v]
                        for vn in vnames:
                            col = out.get(vn)
                            ok = col is not None and len(col) == nsteps
                            if ok:
                                for row, s in enumerate(order):
                                    x = col[row]
                                    exp_inputs = {('in0', s), ('in1', s)}
                                    ok = ok and isinstance(x, Val) and x.key == vn and base_inputs(x) == exp_inputs
                            note('each variable is computed from its own step\'s inputs alone', ok, ctx + f' variable {vn}')
                        insts = {}
                        for vn in vnames:
                            for row, x in enumerate(out.get(vn, [])):
                                if isinstance(x, Val):
                                    insts.setdefault(row, set()).add(x.inst)
                        note('a fresh AurelCore instance per step, shared by nothing else',
                             all(len(v) == 1 for v in insts.values()) and len({next(iter(v)) for v in insts.values()}) == len(insts), ctx)
                        scal = ['in0', 'in1'] + vnames
                        for e in est:
                            enames = [e] if isinstance(e, str) else list(e)
                            for en in enames:
                                for sk in scal:
                                    col = out.get(f'{sk}_{en}')
                                    ok = col is not None and len(col) == nsteps
                                    if ok:
                                        for row in range(nsteps):
                                            x = col[row]
                                            src = x.src if isinstance(x, TagFloat) else (x[-1] if isinstance(x, tuple) else None)
                                            ok = ok and src is not None and sem(src) == sem(out[sk][row])
                                    note('every estimate column = estimator applied to the array of the same row and key', ok,
                                         ctx + f' column {sk}_{en}')
                        # split independence: two successive calls
                        if nsteps <= 2 and len(vars_) + len(est) >= 2:
                            full = table(out)
                            for cut_v in range(len(vars_) + 1):
                                for cut_e in ([0, len(est)] if est else [0]):
                                    RecCore.instances.clear()
                                    d1 = make_data(nsteps, perm, tkey)
                                    try:
                                        o1 = fns['over_time'](d1, fd, vars=list(vars_[:cut_v]), estimates=list(est[:cut_e]), verbose=False)
                                        o2 = fns['over_time'](o1, fd, vars=list(vars_), estimates=list(est), verbose=False)
                                    except Exception as e2:
                                        note('split calls do not raise', False, f'{type(e2).__name__}: {e2}; {ctx}, cut=({cut_v},{cut_e})')
                                        continue
                                    t2 = table(o2)
                                    note('any split of the requests over two successive calls gives the same final table',
                                         t2 == full, ctx + f' split after {cut_v} vars / {cut_e} estimates: keys differing '
                                         f'{sorted(k for k in set(full) | set(t2) if full.get(k) != t2.get(k))[:5]}')
    # estimates-only calls (vars == []) on tables that already carry SOME of the requested estimate columns (a table merged
    # by the user, or one from which columns were dropped to have them redone): the final table must be the complete one
    for nsteps in (1, 2, 3):
        for est in est_sets[1:]:
            RecCore.instances.clear()
            base = make_data(nsteps, tuple(reversed(range(nsteps))), 'it')
            try:
                full = fns['over_time'](base, fd, vars=[], estimates=list(est), verbose=False)
            except Exception as e:
                note('over_time does not raise', False, f'estimates-only call: {type(e).__name__}: {e}')
                continue
            tfull = table(full)
            ecols = [k for k in tfull if k not in ('it', 'in0', 'in1')]
            drops = [[c_] for c_ in ecols] + [[c_ for c_ in ecols if c_.startswith('in0_')], [c_ for c_ in ecols if c_.startswith('in1_')],
                                               [c_ for c_ in ecols if not c_.startswith('in1_') or c_.endswith('_max')]]
            for drop in drops:
                if not drop:
                    continue
                ncases += 1
                part = {k: list(v) for k, v in full.items() if k not in drop}
                try:
                    again = fns['over_time'](part, fd, vars=[], estimates=list(est), verbose=False)
                except Exception as e:
                    note('over_time does not raise', False, f'estimates-only call on a partially filled table: {type(e).__name__}: {e}')
                    continue
                t2 = table(again)
                note('an estimates-only call completes a table that already holds some of the estimate columns',
                     t2 == tfull, f'{nsteps} steps, estimates {est}, table without {drop}: columns missing or different afterwards '
                     f'{sorted(k for k in set(tfull) | set(t2) if tfull.get(k) != t2.get(k))[:6]}')
    return checks, ncases


def estimator_obligations(R):
    import aurel.time as T
    rng = np.random.default_rng(1)
    a = rng.standard_normal((4, 5, 6))
    a[0, 0, 0], a[-1, -1, -1], a[0, -1, 0] = 7.0, -8.0, 9.5
    spec = {'max': np.max, 'mean': np.mean, 'min': np.min, 'sum': np.sum, 'std': np.std, 'var': np.var,
            'quartile1': lambda x: np.percentile(x, 25), 'median': lambda x: np.percentile(x, 50),
            'quartile3': lambda x: np.percentile(x, 75)}
    for k in list(spec):
        spec[k + 'abs'] = (lambda f: (lambda x: f(np.abs(x))))(spec[k])
    for ix, iy, iz in itertools.product((0, 1), repeat=3):
        spec[f'x{ix}y{iy}z{iz}'] = (lambda ix=ix, iy=iy, iz=iz: (lambda x: x[-ix, -iy, -iz]))()
    t0 = time.time()
    bad = []
    for k, f in T.est_functions.items():
        if k not in spec:
            bad.append(f'{k}: no definition known')
            continue
        for arr in (a, -a, np.abs(a) + 1, a[::-1, :, ::-1]):
            if not np.isclose(f(arr), spec[k](arr), rtol=1e-12, atol=0):
                bad.append(f'{k}: {f(arr)} != {spec[k](arr)}')
                break
    missing = set(spec) - set(T.est_functions)
    R.ob('time.est_functions:each entry equals its definition (corner extractors, percentiles 25/50/75, *abs apply abs first)',
         'est_functions', 'refuted' if bad else 'bounded-ok', 'bounded-native', time.time() - t0, '; '.join(bad[:5]), bad[:6] or None,
         bounded=f'{len(T.est_functions)} entries (exhaustive) on 4 non-cubic random arrays')


def native_replay(o=None):
    """the real over_time + real AurelCore on steps with different data, given in reversed order"""
    import aurel
    par = dict(Nx=6, Ny=6, Nz=6, xmin=0., ymin=0., zmin=0., dx=0.5, dy=0.5, dz=0.5)
    fd = aurel.FiniteDifference(par, fd_order=2, verbose=False)
    x = fd.x
    mk = lambda s: np.array([[1 + s + x * x, 0.1 * x, 0 * x], [0.1 * x, 1 + 0 * x, 0 * x], [0 * x, 0 * x, 2 + s * x]])
    steps = [2, 0, 1]
    itof = {0: 5, 1: 20, 2: 100}          # not ordered like their decimal strings
    data = {'it': [itof[s] for s in steps], 'gammadown3': [mk(s) for s in steps]}
    out = aurel.over_time(data, fd, vars=['gammadet'], estimates=['max', 'x1y1z0'], verbose=False)
    lines, bad = [], False
    for row, it in enumerate(out['it']):
        s = {5: 0, 20: 1, 100: 2}[int(it)]
        ref = aurel.maths.determinant3(mk(s))
        if list(out['it']) != sorted(out['it']) or not np.allclose(out['gammadet'][row], ref) or not np.isclose(out['gammadet_max'][row], ref.max()) \
                or not np.isclose(out['gammadet_x1y1z0'][row], ref[-1, -1, 0]):
            bad = True
            lines.append(f'row {row} (it={it}): gammadet / its estimates do not belong to this step')
    # a user column that is not a documented key, read by a custom variable; and a request split over two calls in which the
    # second custom variable reads the column produced by the first
    chi = {sv: (sv - 0.5) * (1 + x) for sv in steps}

    def with_chi(rel):
        return rel['gammadet'] * rel.data['chi'] if 'chi' in rel.data else rel['gammadet'] * 0 + 1e30

    def twice(rel):
        return 2.0 * rel.data['detchi'] if 'detchi' in rel.data else rel['gammadet'] * 0 - 1e30
    base = lambda: {'it': [itof[sv] for sv in steps], 'gammadown3': [mk(sv) for sv in steps], 'chi': [chi[sv] for sv in steps]}
    try:
        one = aurel.over_time(base(), fd, vars=[{'detchi': with_chi}, {'twice': twice}], estimates=['max'], verbose=False)
        two = aurel.over_time(base(), fd, vars=[{'detchi': with_chi}], estimates=['max'], verbose=False)
        two = aurel.over_time(two, fd, vars=[{'twice': twice}], estimates=['max'], verbose=False)
        for nm, tab in (('one call', one), ('two calls', two)):
            for row, it in enumerate(tab['it']):
                sv = {5: 0, 20: 1, 100: 2}[int(it)]
                ref = aurel.maths.determinant3(mk(sv)) * chi[sv]
                if not np.allclose(tab['detchi'][row], ref) or not np.allclose(tab['twice'][row], 2 * ref) or not np.isclose(tab['twice_max'][row], (2 * ref).max()) \
                        or not np.allclose(tab['chi'][row], chi[sv]):
                    bad = True
                    lines.append(f'{nm}: row {row} (it={it}): custom variables reading the user column chi / the earlier custom column are not computed from this step\'s inputs '
                                 f'(detchi max {np.max(tab["detchi"][row]):.4g} vs {ref.max():.4g}; twice max {np.max(tab["twice"][row]):.4g} vs {(2 * ref).max():.4g})')
    except Exception as e:
        bad = True
        lines.append(f'over_time with a user column raised {type(e).__name__}: {e}')
    # estimates-only call on a table that already holds the estimate of its LAST scalar column but not of an earlier one
    try:
        ctr = lambda a: float(a[1, 1, 1])
        tab = {'it': [5, 20], 'alpha': [1 + 0.1 * x, 1 + 0.2 * x], 'rho': [2 + x, 3 + x * x]}
        full = aurel.over_time({k: list(v) for k, v in tab.items()}, fd, vars=[], estimates=[{'ctr': ctr}], verbose=False)
        part = {k: v for k, v in full.items() if k != 'alpha_ctr'}
        again = aurel.over_time(part, fd, vars=[], estimates=[{'ctr': ctr}], verbose=False)
        if 'alpha_ctr' not in again or not np.allclose(again['alpha_ctr'], [ctr(a) for a in tab['alpha']]):
            bad = True
            lines.append("estimates-only call with a custom estimator on a table that holds rho_ctr but not alpha_ctr: "
                         f"alpha_ctr {'missing' if 'alpha_ctr' not in again else 'wrong'} afterwards (columns {sorted(again)})")
    except Exception as e:
        bad = True
        lines.append(f'estimates-only call on a partially filled table raised {type(e).__name__}: {e}')
    return bad, '\n'.join(lines) or 'real over_time on 3 steps given out of order (built-in + custom variables reading a user column, one call and two calls): every row consistent'


def mixed_table_cases():
    """the trace contracts treat array contents as opaque values; this runs the real over_time + real AurelCore on tables whose
    steps hold their arrays in different dtypes (whole-number data as int64 or float32 at some steps, float64 at others), 5 steps
    in scrambled row order: stored variables == fresh per-step calculation, estimates == estimator of the stored array, input
    columns preserved"""
    import warnings
    import aurel
    par = dict(Nx=6, Ny=7, Nz=8, xmin=0., ymin=0., zmin=0., dx=0.5, dy=0.5, dz=0.5)
    bad, n = [], 0
    with warnings.catch_warnings():
        warnings.simplefilter('ignore')
        fd = aurel.FiniteDifference(par, fd_order=2, verbose=False)
        x, y = fd.x, fd.y
        one = np.ones_like(x)
        its = [8, 0, 4, 16, 12]

        def metric(it, kind):
            if kind == 'int':       # exact whole-number data held in an integer array
                return np.array([[2 * one, 0 * one, 0 * one], [0 * one, 3 * one, 0 * one], [0 * one, 0 * one, 1 * one]]).astype(np.int64)
            g = np.array([[1 + 0.01 * it + 0.3 * x * x, 0.1 * x, 0 * x], [0.1 * x, 1.5 + 0.2 * y, 0 * x], [0 * x, 0 * x, 2 + 0.05 * it * x]])
            return g.astype(np.float32) if kind == 'f32' else g
        patterns = {'integer arrays at the earliest step': {0: 'int'}, 'integer arrays at a middle step': {8: 'int'}, 'float32 at the earliest step': {0: 'f32'},
                    'integer arrays at the last step': {16: 'int'}, 'float64 throughout': {}}
        for pname, pat in patterns.items():
            gs = {it: metric(it, pat.get(it, 'f64')) for it in its}
            rho = {it: ((3 * one).astype(np.int64) if pat.get(it) == 'int' else 1.0 + 0.01 * it + 0.1 * np.cos(x)) for it in its}
            data = {'it': list(its), 'gammadown3': [gs[it] for it in its], 'rho0': [rho[it] for it in its]}
            try:
                out = aurel.over_time(data, fd, vars=['gammadet', 'gammaup3'], estimates=['max', 'min', 'mean'], verbose=False)
            except Exception as e:
                bad.append(f'{pname}: over_time raised {type(e).__name__}: {e}')
                continue
            if [int(i) for i in out['it']] != sorted(its):
                bad.append(f'{pname}: rows not ordered by it: {list(out["it"])}')
                continue
            for row, it in enumerate(sorted(its)):
                n += 1
                rel = aurel.AurelCore(fd, verbose=False)
                rel.data['gammadown3'], rel.data['rho0'] = gs[it], rho[it]
                rel.freeze_data()
                tol = 1e-5 if pat.get(it) == 'f32' else 1e-12
                for v in ('gammadet', 'gammaup3'):
                    ref = np.asarray(rel[v], dtype=float)
                    got = np.asarray(out[v][row], dtype=float)
                    if got.shape != ref.shape or not np.allclose(got, ref, rtol=tol, atol=tol):
                        bad.append(f'{pname}: {v} stored for it={it} differs from a fresh calculation on that step (max |difference| '
                                   f'{np.max(np.abs(got - ref)) if got.shape == ref.shape else "shape"})')
                for est, f in (('max', np.max), ('min', np.min), ('mean', np.mean)):
                    if not np.isclose(out[f'gammadet_{est}'][row], f(np.asarray(out['gammadet'][row], dtype=float)), rtol=1e-6, atol=1e-9):
                        bad.append(f'{pname}: gammadet_{est} at it={it} is {out[f"gammadet_{est}"][row]!r}, the estimator of the stored array gives {f(out["gammadet"][row])!r}')
                for col, src in (('gammadown3', gs), ('rho0', rho)):
                    if not np.allclose(np.asarray(out[col][row], dtype=float), np.asarray(src[it], dtype=float), rtol=tol, atol=tol):
                        bad.append(f'{pname}: input column {col} at it={it} is not preserved (max |difference| {np.max(np.abs(np.asarray(out[col][row], dtype=float) - src[it])):.3g})')
    return bad, n


def mixed_table_obligation(R):
    t0 = time.time()
    bad, n = mixed_table_cases()
    R.bounded.append(dict(function='aurel.time.over_time (real AurelCore)', bound='5 steps in scrambled order x 5 dtype patterns (int64 / float32 / float64 arrays at different steps)'))
    R.ob('time.over_time:tables whose steps hold arrays of different dtypes -- stored variables == fresh per-step calculation, estimates == estimator of the stored array, input columns preserved',
         'over_time', 'refuted' if bad else ('bounded-ok' if n else 'undecided'), 'bounded-native', time.time() - t0, '; '.join(bad[:4]) or f'{n} rows compared', bad[:6] or None,
         bounded='5 steps x 5 dtype patterns', replay=lambda o: (lambda b: (bool(b[0]), '; '.join(b[0][:4]) or 'no difference'))(mixed_table_cases()))


def run(R):
    from engine.canary import run_canaries
    run_canaries(R, ('symx',))
    mixed_table_obligation(R)
    R.assume('A6')
    R.trust('contract of AurelCore used by the driver: rel[v] on a fresh instance holding exactly the step\'s inputs returns F_v(inputs) (properties C01-C10 decide F_v)')
    t0 = time.time()
    checks, ncases = driver_obligations(R, R.tier)
    secs = time.time() - t0
    R.bounded.append(dict(function='aurel.time.over_time / process_single_timestep',
                          bound=f'{ncases} driver configurations: <= {3 if R.tier == "quick" else 4} steps x all row permutations, plus tables of 5-12 (thorough: up to 20) steps in reversed and random row orders, x temporal keys x 4 vars lists x 3 estimate lists (+ all two-call splits for <= 2 steps); array contents opaque (all values)'))
    for label, (cnt, fail) in checks.items():
        R.ob(f'time.over_time:{label}', 'over_time', 'refuted' if fail else 'bounded-ok', 'trace-contract', secs / max(len(checks), 1),
             fail or f'{cnt} checks', [label] if fail else None, bounded='shapes enumerated; contents symbolic', replay=native_replay)
    estimator_obligations(R)
    timevc.timestep_freeze_obligations(R)
    R.extra['explanation'] = ('trace contracts of the real over_time / process_single_timestep on a recording contract stub of AurelCore: '
                              f'{ncases} configurations (bounded shapes), opaque contents; est_functions table exhaustive')
