"""C07 finite-difference operators are the stated-order derivative at every grid point.

O1  each of the 12 stencils: linear form == h * sum_k w*_k f[i+k] with w* the unique weights
    satisfying the order conditions sum_k w_k k^m = [m=1], m = 0..p (computed here by solving the
    Vandermonde system over Q); offsets are the standard one-sided / centred sets.
O2  splice per boundary mode, for ALL N >= N_min and ALL i: which stencil at which point,
    wrap / mirror index maps, every read index inside [0, len).  N_min is computed.
O3  d3y / d3z = the x operator under axis exchange, with Ny/Nz and dy/dz.
O4  tensor wrappers act component by component, derivative index first.
Scheme selection in __init__ (fd_order -> functions, mask_len) is checked on the real constructor.
"""
import itertools
import time
import types
from fractions import Fraction
import numpy as np
import z3

from engine import symx as SX
from engine.symx import Z, SArr, Ctx, base_array, explore, prove, to_z3
from engine.e1 import RebMod, rebind_class

LEVEL = 'proof'
ORDERS = [2, 4, 6, 8]
MODES = ['no boundary', 'periodic', 'symmetric']


def ref_weights(offsets):
    """unique w with sum_k w_k k^m = [m == 1] for m = 0..len(offsets)-1 (Gauss over Q)."""
    n = len(offsets)
    A = [[Fraction(k) ** m for k in offsets] + [Fraction(1 if m == 1 else 0)] for m in range(n)]
    for c in range(n):
        p = next(r for r in range(c, n) if A[r][c] != 0)
        A[c], A[p] = A[p], A[c]
        A[c] = [x / A[c][c] for x in A[c]]
        for r in range(n):
            if r != c and A[r][c] != 0:
                A[r] = [x - A[r][c] * y for x, y in zip(A[r], A[c])]
    return {k: A[i][n] for i, k in enumerate(offsets)}


def offsets(kind, p):
    m = p // 2
    if kind == 'centered':
        return list(range(-m, m + 1))
    if kind == 'forward':
        return list(range(0, p + 1))
    return list(range(-p, 1))


def lin(F, w, idx_of_k, h):
    """h * sum_k w_k F(idx_of_k(k))"""
    e = z3.RealVal(0)
    for k, wk in w.items():
        if wk != 0:
            e = e + to_z3(wk, real=True) * F(*idx_of_k(k))
    return h * e


def get_modules():
    import aurel.finitedifference as FDm
    shim = SX.ShimNPz()
    over = {'np': shim}
    for nm, val in vars(FDm).items():                # module-level numpy tables of the code under test become symbolic arrays
        if isinstance(val, np.ndarray):
            try:
                over[nm] = SX.lift_array(val, nm)
            except SX.PathAbort:
                pass
    mod = RebMod(FDm, over)
    cls = rebind_class(FDm.FiniteDifference, mod._g)
    return FDm, mod, cls


def make_fd(cls, FDm, order, boundary, dims):
    """the real constructor decides the scheme (run natively on a small grid); the symbolic
    instance carries exactly those attributes with symbolic sizes and spacings."""
    real = FDm.FiniteDifference(dict(Nx=20, Ny=20, Nz=20, xmin=0., ymin=0., zmin=0., dx=1., dy=1., dz=1.),
                                boundary=boundary, fd_order=order, verbose=False)
    fd = object.__new__(cls)
    fd.boundary = real.boundary
    fd.fd_order = real.fd_order
    fd.mask_len = real.mask_len
    fd.backward, fd.centered, fd.forward = real.backward, real.centered, real.forward
    fd.param = dict(Nx=dims[0], Ny=dims[1], Nz=dims[2])
    fd.inverse_dx, fd.inverse_dy, fd.inverse_dz = Z.real('hx'), Z.real('hy'), Z.real('hz')
    return fd, real


def expected_axis(F, mode, p, axis, idx, N, h):
    """expected value of the derivative along `axis` at the (z3) index tuple idx."""
    m = p // 2
    wc, wf, wb = (ref_weights(offsets(k, p)) for k in ('centered', 'forward', 'backward'))
    i = idx[axis]

    def at(j):
        t = list(idx)
        t[axis] = j
        return tuple(t)
    if mode == 'no boundary':
        return z3.If(i < m, lin(F, wf, lambda k: at(i + k), h),
                     z3.If(i < N - m, lin(F, wc, lambda k: at(i + k), h), lin(F, wb, lambda k: at(i + k), h)))
    if mode == 'periodic':
        wrapi = lambda j: z3.If(j < 0, j + N, z3.If(j >= N, j - N, j))
        return lin(F, wc, lambda k: at(wrapi(i + k)), h)
    mirror = lambda j: z3.If(j < 0, -j, z3.If(j > N - 1, 2 * (N - 1) - j, j))
    return lin(F, wc, lambda k: at(mirror(i + k)), h)


def stencil_obligations(R, FDm):
    for p in ORDERS:
        for kind in ('backward', 'centered', 'forward'):
            fn = getattr(FDm, f'fd{p}_{kind}')
            R.under_contract(fn)
            offs = offsets(kind, p)
            w = ref_weights(offs)
            # order conditions of the reference weights (definition of "standard p-th order weights")
            assert all(sum(wk * Fraction(k) ** m for k, wk in w.items()) == (1 if m == 1 else 0) for m in range(p + 1))
            t0 = time.time()

            def run():
                c = SX.ctx()
                L, i = z3.Int('L'), z3.Int('i')
                c.assume(z3.And(L >= 100, i >= 20, i < L - 20))
                f, F = base_array('F', (L,))
                res = fn(f, Z(i), Z.real('h'))
                exp = lin(F, w, lambda k: (i + k,), z3.Real('h'))
                c.require('weights', to_z3(res) == exp)
                return res
            try:
                paths = explore(run)
                status, detail, comp = 'discharged', '', None
                for res, c in paths:
                    for name, goal, pc in c.obls:
                        v, model, secs = prove(pc, goal)
                        if v == 'invalid' and name == 'weights':
                            status, detail, comp = 'refuted', f'linear form differs from the standard weights {dict((k, str(v)) for k, v in w.items())}; model {model}', ['weights']
                        elif v == 'unknown':
                            status, detail = 'undecided', str(model)
            except Exception as e:
                status, detail, comp = 'undecided', f'{type(e).__name__}: {e}', None
            R.ob(f'fd.fd{p}_{kind}:weights-are-standard-order-{p}', fn.__name__, status, 'z3', time.time() - t0, detail, comp,
                 replay=lambda o, p=p: native_poly_replay(p, 'no boundary'))


def run_operator(cls, FDm, order, mode, axis, nmin, rank=0, wrapper=None, dtype='float'):
    """symbolic execution of the real d3x/d3y/d3z (or a tensor wrapper) for all N >= nmin.
    -> (all_valid, failures, n_obligations, secs, undecided)"""
    names = ['Nx', 'Ny', 'Nz']
    hnames = ['hx', 'hy', 'hz']
    fails, undec, nob, t0 = [], [], 0, time.time()

    def run():
        c = SX.ctx()
        dims = [z3.Int(n) for n in names]
        all_axes = wrapper is not None and wrapper[2] == '_'
        for ax, d in enumerate(dims):
            c.assume(d >= (nmin if (ax == axis or all_axes) else 1))
        fd, real = make_fd(cls, FDm, order, mode, dims)
        lead = (3,) * rank
        f, F = base_array('F', lead + tuple(dims), dtype)
        meth = wrapper or ['d3x', 'd3y', 'd3z'][axis]
        out = getattr(fd, meth)(f)
        # shape
        exp_shape = ((3,) if wrapper and not wrapper.startswith('d3x') and not wrapper.startswith('d3y') and not wrapper.startswith('d3z') else ()) + lead + tuple(dims)
        ok_shape = len(out.shape) == len(exp_shape)
        if ok_shape:
            c.require('shape', z3.And(*[to_z3(a) == to_z3(b) for a, b in zip(out.shape, exp_shape)]))
        else:
            c.require('shape', z3.BoolVal(False))
            return
        I = [c.new_int(n) for n in 'IJK']
        for v, d in zip(I, dims):
            c.assume(z3.And(v >= 0, v < d))
        lead_all = list(itertools.product(range(3), repeat=len(exp_shape) - 3))
        for li in lead_all:
            e = to_z3(out.at(li + tuple(I)))
            if len(li) > rank:           # derivative index first
                ax, comp = li[0], li[1:]
            else:
                ax, comp = axis, li
            Fc = (lambda *ijk, comp=comp: F(*[z3.IntVal(q) for q in comp], *ijk))
            exp = expected_axis(Fc, mode, real.fd_order, ax, tuple(I), dims[ax], z3.Real(hnames[ax]))
            c.require(f'value{list(li)}', e == exp)
    try:
        paths = explore(run)
    except SX.PathAbort as e:
        return False, [], 0, time.time() - t0, [f'PathAbort: {e}']
    except (IndexError, TypeError, ValueError, AttributeError, KeyError) as e:
        if SX.raised_in_code_under_test(e):
            return False, [('raises', f'{type(e).__name__}: {e}', None)], 1, time.time() - t0, []
        return False, [], 0, time.time() - t0, [f'outside the modelled subset ({type(e).__name__} raised inside a library / the array shim on a symbolic array): {e}']
    for res, c in paths:
        for name, goal, pc in c.obls:
            nob += 1
            v, model, secs = prove(pc, goal)
            if v == 'invalid':
                fails.append((name, str(model)[:400], model))
            elif v == 'unknown':
                undec.append(f'{name}: {model}')
    return (not fails and not undec), fails, nob, time.time() - t0, undec


def native_int_replay(p, mode, axis):
    """the real operators on an int64 field against the same field cast to float"""
    import aurel
    rng = np.random.default_rng(3)
    fd = aurel.FiniteDifference(dict(Nx=11, Ny=12, Nz=13, xmin=0., ymin=0., zmin=0., dx=0.5, dy=0.25, dz=1.0), boundary=mode, fd_order=p, verbose=False)
    fi = rng.integers(-50, 50, size=(11, 12, 13)).astype(np.int64)
    op = [fd.d3x, fd.d3y, fd.d3z][axis]
    a, b = np.asarray(op(fi), dtype=float), np.asarray(op(fi.astype(float)), dtype=float)
    err = float(np.max(np.abs(a - b)))
    idx = np.unravel_index(int(np.argmax(np.abs(a - b))), a.shape)
    return err > 1e-9, (f'real d3{"xyz"[axis]} (order {p}, {mode}) on an int64 field vs the same field as float64: max difference {err:.3e} at index {tuple(int(i) for i in idx)} '
                        f'(int input gives {a[idx]!r}, float input {b[idx]!r})')


MACHINE_DTYPES = ('int64', 'int32', 'int16', 'int8', 'uint8', 'uint16', 'uint32', 'uint64', 'float32', 'bool')


def native_dtype_cases(orders=(2, 4, 6, 8)):
    """the symbolic integer obligations treat integers as mathematical; this runs the real operators on fields held in every
    machine dtype (small values, so that the true result is representable) against the same field in float64"""
    import warnings
    import aurel
    rng = np.random.default_rng(5)
    N = 20
    base = rng.integers(0, 50, size=(N, N + 1, N + 2))
    bad, n = [], 0
    with warnings.catch_warnings():
        warnings.simplefilter('ignore')
        for p in orders:
            for mode in MODES:
                fd = aurel.FiniteDifference(dict(Nx=N, Ny=N + 1, Nz=N + 2, xmin=0., ymin=0., zmin=0., dx=0.5, dy=0.25, dz=1.0), boundary=mode, fd_order=p, verbose=False)
                for dt in MACHINE_DTYPES:
                    f = (base % 2).astype(bool) if dt == 'bool' else base.astype(dt)
                    tol = 1e-3 if dt == 'float32' else 1e-10
                    for ax, op in enumerate((fd.d3x, fd.d3y, fd.d3z)):
                        n += 1
                        ref = op(f.astype(np.float64))
                        try:
                            out = np.asarray(op(f), dtype=float)
                        except Exception as e:
                            bad.append(f'd3{"xyz"[ax]} (order {p}, {mode}) on a {dt} field raises {type(e).__name__}: {e}')
                            continue
                        err = float(np.max(np.abs(out - ref)))
                        if not err <= tol:
                            idx = tuple(int(i) for i in np.unravel_index(int(np.argmax(np.abs(out - ref))), ref.shape))
                            bad.append(f'd3{"xyz"[ax]} (order {p}, {mode}) on a {dt} field differs from the same field in float64 by {err:.3g} at index {idx}')
        # memory layout of the field: Fortran-ordered (transposed simulation data) and non-contiguous views
        for p in orders:
            for mode in MODES:
                fd = aurel.FiniteDifference(dict(Nx=N, Ny=N + 1, Nz=N + 2, xmin=0., ymin=0., zmin=0., dx=0.5, dy=0.25, dz=1.0), boundary=mode, fd_order=p, verbose=False)
                f = rng.standard_normal((N, N + 1, N + 2))
                for what, g in (('Fortran-ordered', np.asfortranarray(f)), ('non-contiguous (strided view)', np.repeat(f, 2, axis=-1)[..., ::2]),
                                ('read-only', (lambda a: (a.setflags(write=False), a)[1])(f.copy()))):
                    for ax, op in enumerate((fd.d3x, fd.d3y, fd.d3z)):
                        n += 1
                        try:
                            err = float(np.max(np.abs(np.asarray(op(g), dtype=float) - op(f))))
                        except Exception as e:
                            bad.append(f'd3{"xyz"[ax]} (order {p}, {mode}) on a {what} field raises {type(e).__name__}: {e}')
                            continue
                        if not err <= 1e-10:
                            bad.append(f'd3{"xyz"[ax]} (order {p}, {mode}) on a {what} field differs from the same field C-ordered by {err:.3g}')
    return bad, n


def native_poly_replay(p, mode, axes=(0, 1, 2), long_axis=None):
    """replay on the real code: random real field on non-cubic grids of the minimum supported size
    and above; every output sample of d3x/d3y/d3z is compared with the reference linear
    combination (standard weights, wrap / mirror index maps written out in numpy); for one-sided
    boundaries also exactness on a polynomial of degree p."""
    import aurel
    rng = np.random.default_rng(0)
    m = p // 2
    wc, wf, wb = (ref_weights(offsets(k, p)) for k in ('centered', 'forward', 'backward'))
    nmin = {'no boundary': 3 * p // 2, 'periodic': m, 'symmetric': m + 1}[mode]
    lines, bad = [], False
    cases = [[N, N + 1, N + 2] for N in (nmin, nmin + 1, 2 * p + 3)]
    if long_axis is not None:
        # one long axis (beyond any small fixed table size), short transversally
        cases = [[long_axis if k == ax_ else max(nmin, 4) + k for k in range(3)] for ax_ in axes]
    for dims in cases:
        N = dims[0]
        steps = [0.25, 0.5, 0.125]
        par = dict(Nx=dims[0], Ny=dims[1], Nz=dims[2], xmin=-1., ymin=0.5, zmin=2., dx=steps[0], dy=steps[1], dz=steps[2])
        try:
            fd = aurel.FiniteDifference(par, boundary=mode, fd_order=p, verbose=False)
        except Exception as e:
            lines.append(f'dims={dims}: constructor raised {type(e).__name__}: {e}')
            continue
        f = rng.standard_normal(dims)
        for ax, op in zip(range(3), (fd.d3x, fd.d3y, fd.d3z)):
            if ax not in axes:
                continue
            n = dims[ax]
            g = np.moveaxis(f, ax, 0)
            ref = np.zeros_like(g)
            for i in range(n):
                if mode == 'no boundary':
                    w = wf if i < m else (wc if i < n - m else wb)
                    ref[i] = sum(float(wk) * g[i + k] for k, wk in w.items()) / steps[ax]
                elif mode == 'periodic':
                    ref[i] = sum(float(wk) * g[(i + k) % n] for k, wk in wc.items()) / steps[ax]
                else:
                    mir = lambda j: -j if j < 0 else (2 * (n - 1) - j if j > n - 1 else j)
                    ref[i] = sum(float(wk) * g[mir(i + k)] for k, wk in wc.items()) / steps[ax]
            ref = np.moveaxis(ref, 0, ax)
            try:
                out = op(f)
            except Exception as e:
                lines.append(f'dims={dims} axis {ax}: real operator raised {type(e).__name__}: {e}')
                bad = True
                continue
            if out.shape != ref.shape:
                lines.append(f'dims={dims} axis {ax}: shape {out.shape} != {ref.shape}')
                bad = True
                continue
            err = np.abs(out - ref)
            worst = np.unravel_index(np.argmax(err), err.shape)
            lines.append(f'dims={dims} axis {ax}: max |real - reference| = {err.max():.3e} at index {tuple(int(q) for q in worst)}')
            if err.max() > 1e-9 * (1 + np.abs(ref).max()):
                bad = True
    return bad, '\n'.join(lines)


def run(R):
    from engine.canary import run_canaries
    run_canaries(R, ('symx',))
    R.assume('A1', 'A2', 'A6')
    R.trust('Taylor\'s theorem: a linear combination exact on polynomials of degree <= p is a p-th order approximation of the derivative of smooth fields (A3)')
    FDm, mod, cls = get_modules()
    for n in ('fd_map', 'map1', 'map2', 'map3'):
        R.under_contract(getattr(FDm, n))
    for n in ('d3', 'd3_periodic', 'd3_symmetric', 'd3_onesided', 'd3x', 'd3y', 'd3z', 'd3_scalar', 'd3_rank1tensor',
              'd3_rank2tensor', 'd3_rank3tensor', 'd3x_rank1tensor', 'd3x_rank2tensor', 'd3x_rank3tensor', '__init__'):
        R.under_contract(getattr(FDm.FiniteDifference, n))
    stencil_obligations(R, FDm)
    # scheme selection
    for p in ORDERS + [3, 5, 0, 10]:
        t0 = time.time()
        real = FDm.FiniteDifference(dict(Nx=20, Ny=20, Nz=20, xmin=0., ymin=0., zmin=0., dx=1., dy=1., dz=1.),
                                    fd_order=p, verbose=False)
        q = p if p in ORDERS else 4
        ok = (real.fd_order == q and real.mask_len == q // 2 and real.centered is getattr(FDm, f'fd{q}_centered')
              and real.forward is getattr(FDm, f'fd{q}_forward') and real.backward is getattr(FDm, f'fd{q}_backward'))
        R.ob(f'fd.__init__[fd_order={p}]:scheme-selection', '__init__', 'discharged' if ok else 'refuted', 'concrete-exhaustive',
             time.time() - t0, '' if ok else f'selected {real.centered.__name__}, mask_len {real.mask_len}', None if ok else ['selection'])
    # splice, all N >= N_min, per order x mode (axis x); N_min computed
    nmins = {}
    for p in ORDERS:
        for mode in MODES:
            t0 = time.time()
            found = None
            last = None
            unsure = None
            for cand in range(1, 2 * p + 3):
                okv, fails, nob, secs, undec = run_operator(cls, FDm, p, mode, 0, cand)
                last = (fails, undec, nob)
                if okv:
                    found = cand
                    break
                if undec and not fails and unsure is None:
                    unsure = (cand, undec)      # neither proved nor refuted at this size: the minimum is not determined by this run
            nmins[(p, mode)] = found
            name = f'fd.d3x[order={p},{mode}]:all-N>={found}-all-points'
            if found is None:
                fails, undec, nob = last
                R.ob(f'fd.d3x[order={p},{mode}]:splice', 'd3x', 'undecided' if undec and not fails else 'refuted', 'z3',
                     time.time() - t0, ('; '.join(undec) or '; '.join(f'{a}: {b}' for a, b, _ in fails[:3])),
                     [f[0] for f in fails] or None, replay=lambda o, p=p, mode=mode: native_poly_replay(p, mode))
            else:
                exp_min = {'no boundary': 3 * p // 2, 'periodic': p // 2, 'symmetric': p // 2 + 1}[mode]
                R.ob(name, 'd3x', 'discharged', 'z3', time.time() - t0,
                     f'{last[2]} verification conditions (shape, value, every read index in range); minimum supported size computed = {found}')
                R.extra.setdefault('minimum_supported_size', {})[f'order {p}, {mode}'] = found
                if found != exp_min and unsure is not None and unsure[0] < found:
                    R.ob(f'fd.d3x[order={p},{mode}]:minimum-size-is-{exp_min}', 'd3x', 'undecided', 'z3', 0.0,
                         f'size {unsure[0]} was neither proved nor refuted ({unsure[1][0][:120]}); first size proved: {found}')
                else:
                    R.ob(f'fd.d3x[order={p},{mode}]:minimum-size-is-{exp_min}', 'd3x',
                         'discharged' if found == exp_min else 'refuted', 'z3', 0.0,
                         '' if found == exp_min else f'computed minimum size {found} != expected {exp_min}',
                         None if found == exp_min else ['nmin'], replay=lambda o, p=p, mode=mode: native_poly_replay(p, mode))
    # axes y, z
    orders_axes = [4] if R.tier == 'quick' else ORDERS
    for p in orders_axes:
        for mode in MODES:
            for axis in (1, 2):
                nm = nmins.get((p, mode)) or 2 * p
                okv, fails, nob, secs, undec = run_operator(cls, FDm, p, mode, axis, nm)
                st = 'discharged' if okv else ('undecided' if undec and not fails else 'refuted')
                R.ob(f'fd.d3{"xyz"[axis]}[order={p},{mode}]:x-operator-under-axis-exchange', 'd3' + 'xyz'[axis], st, 'z3', secs,
                     '' if okv else ('; '.join(undec) or '; '.join(f'{a}: {b}' for a, b, _ in fails[:3])),
                     None if okv else [f[0] for f in fails],
                     replay=lambda o, p=p, mode=mode, axis=axis: native_poly_replay(p, mode, (axis,)))
    # integer-dtype input fields (index arrays, masks): the derivative is the same real linear combination, not truncated
    for mode in MODES:
        for axis in (0, 1, 2):
            p = 4
            nm = nmins.get((p, mode)) or 2 * p
            okv, fails, nob, secs, undec = run_operator(cls, FDm, p, mode, axis, nm, dtype='int')
            st = 'discharged' if okv else ('undecided' if undec and not fails else 'refuted')
            R.ob(f'fd.d3{"xyz"[axis]}[order={p},{mode}, integer-dtype field]:same real-valued derivative (no truncation to the input dtype)', 'd3' + 'xyz'[axis], st, 'z3', secs,
                 '' if okv else ('; '.join(undec) or '; '.join(f'{a}: {b}' for a, b, _ in fails[:3])),
                 None if okv else [f[0] for f in fails], replay=lambda o, mode=mode, axis=axis: native_int_replay(4, mode, axis))
    # machine dtypes on the real code: narrow and unsigned integers, float32, bool (the z3 obligations above treat integers as
    # mathematical integers)
    t0 = time.time()
    dbad, dn = native_dtype_cases((2, 4, 6, 8) if R.tier != 'quick' else (2, 4, 8))
    R.bounded.append(dict(function='aurel.finitedifference d3x/d3y/d3z on machine dtypes', bound=f'{dn} operator applications: orders x 3 modes x 3 axes x {len(MACHINE_DTYPES)} dtypes, one 20x21x22 field with values in [0, 50)'))
    R.ob('fd.d3xyz[every machine dtype of the field]:same real-valued derivative as for the field in float64 (no wrap-around, no OverflowError)', 'd3x',
         'refuted' if dbad else 'bounded-ok', 'bounded-native', time.time() - t0, '; '.join(dbad[:4]) or f'{dn} applications agree', dbad[:6] or None,
         bounded=f'{dn} applications', replay=lambda o: (lambda b: (bool(b[0]), '; '.join(b[0][:4]) or 'no difference'))(native_dtype_cases()))
    # long axes on the real code (cross-check of the all-N proof against anything keyed to a fixed size): 300 and 1100 points
    for mode in MODES:
        t0 = time.time()
        found, text = False, ''
        for L_ in (300, 1100):
            f_, t_ = native_poly_replay(4, mode, (0, 1, 2), long_axis=L_)
            if f_:
                found, text = True, t_
                break
        R.ob(f'fd.d3xyz[order=4,{mode}, axis of 300 / 1100 points]:same weights on long axes (real code)', 'd3x', 'refuted' if found else 'bounded-ok', 'bounded-native',
             time.time() - t0, text[:600] if found else 'every output sample equals the reference combination', ['long-axis'] if found else None,
             bounded='axis lengths 300 and 1100, order 4', replay=lambda o, mode=mode: native_poly_replay(4, mode, (0, 1, 2), long_axis=300))
    # tensor wrappers
    for wrapper, rank in [('d3_scalar', 0), ('d3_rank1tensor', 1), ('d3x_rank1tensor', 1), ('d3y_rank1tensor', 1),
                          ('d3z_rank1tensor', 1), ('d3_rank2tensor', 2), ('d3x_rank2tensor', 2), ('d3y_rank2tensor', 2),
                          ('d3z_rank2tensor', 2)] + ([('d3_rank3tensor', 3), ('d3x_rank3tensor', 3)] if R.tier != 'quick' else []):
        p, mode = 2, 'no boundary'
        axis = {'x': 0, 'y': 1, 'z': 2}.get(wrapper[2], 0)
        okv, fails, nob, secs, undec = run_operator(cls, FDm, p, mode, axis, 3, rank=rank, wrapper=wrapper)
        st = 'discharged' if okv else ('undecided' if undec and not fails else 'refuted')
        R.ob(f'fd.{wrapper}:componentwise-derivative-index-first', wrapper, st, 'z3', secs,
             f'{nob} verification conditions' if okv else ('; '.join(undec) or '; '.join(f'{a}: {b}' for a, b, _ in fails[:3])),
             None if okv else [f[0] for f in fails])
