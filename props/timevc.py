"""Contracts for aurel.time.process_single_timestep / over_time (C03 part g, C14, C02).

The real functions run with `core` re-bound to a recording stand-in for AurelCore (contract stub):
rel[v] = F_v(inputs of this step) is an opaque token that remembers which instance produced it and
what that instance held; every event (data store, freeze, request, custom-function call, importance
update) is logged in order.  Array contents are opaque, so the checks hold for all contents; list
shapes (number of steps, of variables, of estimators) are enumerated (bounded, stated).
"""
import itertools
import time
import types
import numpy as np


class Val:
    """opaque computed value: which key, from which instance, from which inputs"""

    def __init__(self, key, inst, inputs):
        self.key, self.inst, self.inputs = key, inst, dict(inputs)
        self.shape = (2, 2, 2)

    def __repr__(self):
        return f'<{self.key}@{self.inst}>'


class Arr:
    """opaque per-step input array"""

    def __init__(self, name, step, ndim=3):
        self.name, self.step = name, step
        self.shape = (2,) * ndim

    def __repr__(self):
        return f'[{self.name}#{self.step}]'


class RecCore:
    """contract stub of AurelCore for the time-series driver"""
    instances = []

    def __init__(self, fd, **kw):
        self.fd, self.kw = fd, kw
        self.id = len(RecCore.instances)
        RecCore.instances.append(self)
        self.events = []
        self.var_importance = _Imp(self)
        for k in DESCR + ['press', 'rho0']:          # AurelCore pre-registers every documented key with importance 1.0
            dict.__setitem__(self.var_importance, k, 1.0)
        self.data = _Data(self)

    def freeze_data(self):
        self.events.append(('freeze', tuple(self.data.keys())))
        for k in self.data.keys():
            dict.__setitem__(self.var_importance, k, 0)

    def __getitem__(self, key):
        self.events.append(('request', key))
        if key in self.data:
            return dict.__getitem__(self.data, key)
        v = Val(key, self.id, {k: dict.__getitem__(self.data, k) for k in self.data})
        dict.__setitem__(self.data, key, v)
        return v


class _Data(dict):
    def __init__(self, owner):
        dict.__init__(self)
        self.owner = owner

    def __setitem__(self, k, v):
        self.owner.events.append(('store', k, v))
        dict.__setitem__(self, k, v)


class _Imp(dict):
    def __init__(self, owner):
        dict.__init__(self)
        self.owner = owner

    def __setitem__(self, k, v):
        self.owner.events.append(('importance', k, v))
        dict.__setitem__(self, k, v)


DESCR = ['gammadet', 'Ktrace', 'Hamiltonian', 'rho_n']


def rebind_time():
    import aurel.time as T
    core_ns = types.SimpleNamespace(AurelCore=RecCore, descriptions={k: '' for k in DESCR}, IS_NOTEBOOK=False)

    class NP:
        def __getattr__(self, n):
            return getattr(np, n)

        def shape(self, x):
            return getattr(x, 'shape', np.shape(x))

        def array(self, x, *a, **k):
            return list(x)
    g = dict(T.__dict__)
    g.update(core=core_ns, np=NP(), tqdm=lambda it, **k: it, print=lambda *a, **k: None)
    out = {}
    for n, f in list(T.__dict__.items()):
        if isinstance(f, types.FunctionType) and f.__module__ == T.__name__:
            nf = types.FunctionType(f.__code__, g, f.__name__, f.__defaults__, f.__closure__)
            nf.__kwdefaults__ = f.__kwdefaults__
            g[n] = nf
            out[n] = nf
    est = {}
    for k in T.est_functions:
        est[k] = (lambda key: (lambda a: ('est', key, a)))(k)
    g['est_functions'] = est
    return out, g, T


def custom(name, nreq):
    def f(rel):
        vals = [rel[k] for k in DESCR[:nreq]]
        return Val(name, rel.id, {'called_with': tuple(vals), **{k: dict.__getitem__(rel.data, k) for k in rel.data}})
    f.__name__ = name
    return f


def timestep_freeze_obligations(R):
    """C03 (g): inputs are stored and frozen before anything is requested from the instance, and each custom
    variable is frozen as soon as it is stored (before the next custom function or request runs)."""
    fns, g, T = rebind_time()
    R.under_contract(T.process_single_timestep)
    t0 = time.time()
    bad = []
    n = 0
    shapes = []
    for nin in (1, 2, 3):
        for vars_ in ([DESCR[0]], [DESCR[0], DESCR[1]], [{'c1': custom('c1', 2)}], [{'c1': custom('c1', 3), 'c2': custom('c2', 1)}],
                      [DESCR[0], {'c1': custom('c1', 2)}, DESCR[2]], [{'c1': custom('c1', 1)}, {'c2': custom('c2', 2)}, DESCR[1]],
                      [{'press': custom('press', 1)}, DESCR[3]], [DESCR[0], {'rho0': custom('rho0', 2), 'c1': custom('c1', 1)}]):
            shapes.append((nin, vars_))
    for nin, vars_ in shapes:
        n += 1
        RecCore.instances.clear()
        data = {'it': 7, **{f'in{k}': Arr(f'in{k}', 0) for k in range(nin)}}
        before = dict(data)
        fns['process_single_timestep'](data, object(), vars_, [], False, None, {})
        if len(RecCore.instances) != 1:
            bad.append(f'{len(RecCore.instances)} AurelCore instances created for one step')
            continue
        ev = RecCore.instances[0].events
        names = [e[0] for e in ev]
        if 'freeze' not in names:
            bad.append(f'vars={vars_}: freeze_data never called')
            continue
        fz = names.index('freeze')
        if any(nm in ('request',) for nm in names[:fz]):
            bad.append(f'vars={vars_}: a quantity was requested before the inputs were frozen: {ev[:fz + 1]}')
        stored_before = {e[1] for e in ev[:fz] if e[0] == 'store'}
        if stored_before != set(before):
            bad.append(f'vars={vars_}: inputs stored before freeze_data = {sorted(stored_before)}, expected {sorted(before)}')
        frozen_keys = set(ev[fz][1])
        if frozen_keys != set(before):
            bad.append(f'vars={vars_}: freeze_data saw {sorted(frozen_keys)}')
        # custom variables: store -> importance 0 before the next request
        cnames = [k for v in vars_ if isinstance(v, dict) for k in v]
        for cn in cnames:
            idx = [i for i, e in enumerate(ev) if e[0] == 'store' and e[1] == cn]
            if not idx:
                bad.append(f'custom variable {cn} never stored')
                continue
            nxt = ev[idx[0] + 1] if idx[0] + 1 < len(ev) else None
            if not (nxt and nxt[0] == 'importance' and nxt[1] == cn and nxt[2] == 0):
                bad.append(f'custom variable {cn}: not frozen immediately after being stored (next event {nxt})')
            if dict.get(RecCore.instances[0].var_importance, cn, 1.0) != 0:
                bad.append(f'custom variable {cn}: importance {dict.get(RecCore.instances[0].var_importance, cn, 1.0)} at the end of the step (can be evicted and silently recomputed from defaults)')
        # requests inside custom functions happen after the freeze (inputs can no longer be evicted)
        if any(e[0] == 'request' for e in ev[:fz]):
            bad.append('request before freeze')
    R.bounded.append(dict(function='aurel.time.process_single_timestep', bound=f'{n} shapes: 1-3 input arrays x 8 vars lists (names, custom dicts, mixed, custom variables overriding a documented key); contents opaque'))
    R.ob('time.process_single_timestep:inputs-stored-and-frozen-before-any-request; custom variables frozen when stored',
         'process_single_timestep', 'refuted' if bad else 'bounded-ok', 'trace-contract', time.time() - t0, '; '.join(bad[:4]), bad[:6] or None,
         bounded=f'{n} shapes of (inputs, vars); all contents', replay=native_freeze_replay)


def native_freeze_replay(o=None):
    """the real over_time with a custom variable that makes many requests under an aggressive clean-up:
    the inputs must still be in the cache afterwards"""
    import aurel
    par = dict(Nx=6, Ny=6, Nz=6, xmin=0., ymin=0., zmin=0., dx=0.5, dy=0.5, dz=0.5)
    fd = aurel.FiniteDifference(par, fd_order=2, verbose=False)
    x = fd.x
    g = np.array([[1 + x * x, 0.1 * x, 0 * x], [0.1 * x, 1 + 0 * x, 0 * x], [0 * x, 0 * x, 2 + x]])
    K = np.array([[0.1 * x, 0 * x, 0 * x], [0 * x, 0.2 + 0 * x, 0 * x], [0 * x, 0 * x, 0.3 * x]])
    seen = {}

    def longvar(rel):
        for k in ['gammadet', 'Ktrace', 'Kup3', 'Adown3', 'gammaup3', 's_Gamma_udd3', 'Hamiltonian', 'gdown4', 'gup4', 'gdet',
                  'nup4', 'psi_bssnok', 'A2', 'Aup3', 'betadown3']:
            rel[k]
        seen['inputs_present'] = all(q in rel.data for q in ('gammadown3', 'Kdown3'))
        seen['frozen'] = all(rel.var_importance.get(q, 1) == 0 for q in ('gammadown3', 'Kdown3'))
        return rel['gammadet']
    data = {'it': [0], 'gammadown3': [g], 'Kdown3': [K]}
    out = aurel.over_time(data, fd, vars=[{'mydet': longvar}], estimates=[], verbose=False,
                          clear_cache_every_nbr_calc=2, memory_threshold_inGB=1e-9)
    ref = aurel.maths.determinant3(g)
    ok = seen.get('inputs_present') and seen.get('frozen') and np.allclose(out['mydet'][0], ref)
    return (not ok), (f'over_time with a 15-request custom variable, clean-up every 2 calculations: inputs present {seen.get("inputs_present")}, '
                      f'frozen during the custom function {seen.get("frozen")}, det(gamma) correct {bool(np.allclose(out["mydet"][0], ref))}')
