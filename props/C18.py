"""C18 simulation catalogues and name parsing are faithful and stable across calls.

O1  parsing inverts formatting for rx_key / rx_h5file / rx_checkpoint.  The naming scheme is a template
    hole literal hole literal ...; two things are checked on the real compiled patterns:
    (i) syntactic determinism criterion (from sre_parse of the real pattern): the character that follows each
        hole in the template is outside the hole's character class, so the greedy hole stops exactly at the
        hole value and the first (= returned) match is the intended decomposition;
    (ii) exhaustive enumeration over adversarial hole values (values containing other literals of the scheme,
        class-boundary characters, path prefixes with scheme words): parse(format(holes)) == holes.
O2  catalogue text round trip as a dispatch problem: the line templates iterations() writes are cut out of its
    AST; the ordered substring tests of read_iterations() (and the restarts_done scan) are cut out of theirs; for
    every template and every EARLIER marker an automaton product decides whether an instance of the template
    (hole values over the file-name alphabet [A-Za-z0-9_./-], digits for numbers) can contain the marker.
O3  bounded stand-in: generated directories (restart counts, iteration patterns, levels, 4 layouts, names
    containing catalogue words) x call sequences of iterations(skip_last) / read_iterations / get_content(overwrite):
    reports == generator truth, file text parses back to the in-memory result, repeat = same, incremental = fresh.
"""
import ast
import inspect
import itertools
import os
import re
import shutil
import tempfile
import textwrap
import time
import numpy as np

from engine import etgen

LEVEL = 'other'
FN_ALPHABET = 'abcdefghijklmnopqrstuvwxyzABCDEFGHIJKLMNOPQRSTUVWXYZ0123456789_./-'


# ------------------------------------------------------------------ O1
def charset_of(item):
    """sre_parse item -> predicate on characters (None if not a single-char matcher)"""
    from re import _constants as C
    op, av = item
    if op is C.LITERAL:
        return lambda ch, av=av: ord(ch) == av
    if op is C.NOT_LITERAL:
        return lambda ch, av=av: ord(ch) != av
    if op is C.ANY:
        return lambda ch: ch != '\n'
    if op is C.IN:
        neg = bool(av and av[0][0] is C.NEGATE)
        items = av[1:] if neg else av

        def pred(ch, items=items, neg=neg):
            hit = False
            for o, a in items:
                if o is C.LITERAL and ord(ch) == a:
                    hit = True
                elif o is C.RANGE and a[0] <= ord(ch) <= a[1]:
                    hit = True
                elif o is C.CATEGORY:
                    nm = str(a)
                    if 'NOT_SPACE' in nm:
                        hit = hit or not ch.isspace()
                    elif 'SPACE' in nm:
                        hit = hit or ch.isspace()
                    elif 'NOT_DIGIT' in nm:
                        hit = hit or not ch.isdigit()
                    elif 'DIGIT' in nm:
                        hit = hit or ch.isdigit()
                    elif 'WORD' in nm:
                        hit = hit or (ch.isalnum() or ch == '_')
            return hit != neg
        return pred
    return None


def holes_of(pattern):
    """greedy one-or-more single-character repeats of the pattern, in order, as predicates"""
    from re import _parser, _constants as C
    out = []

    def walk(seq):
        for op, av in seq:
            if op is C.MAX_REPEAT:
                lo, hi, sub = av
                if lo >= 1 and hi == C.MAXREPEAT and len(sub) == 1 and charset_of(sub[0]) is not None:
                    out.append(charset_of(sub[0]))
                else:
                    walk(sub)
            elif op is C.SUBPATTERN:
                walk(av[3])
            elif op is C.BRANCH:
                for b in av[1]:
                    walk(b)
    walk(_parser.parse(pattern))
    return out


KEY_TEMPLATE = [('thorn', '::'), ('variable', ' '), ('it', ' '), ('tl', ' '), ('rl', ' '), ('c', None)]
FILE_TEMPLATE = [('thorn', '-'), ('variable', '.'), ('chunk', '.')]
CHK_TEMPLATE = [('it', '.'), ('chunk', '.')]


def regex_obligations(R):
    import aurel.reading as Rm
    for n in ('parse_hdf5_key', 'parse_h5file'):
        R.under_contract(getattr(Rm, n))
    t0 = time.time()
    bad = []
    for name, rx, template in (('rx_key', Rm.rx_key, KEY_TEMPLATE), ('rx_h5file', Rm.rx_h5file, FILE_TEMPLATE), ('rx_checkpoint', Rm.rx_checkpoint, CHK_TEMPLATE)):
        hs = holes_of(rx.pattern)
        if len(hs) != len(template):
            bad.append(f'{name}: {len(hs)} greedy holes in the pattern, template has {len(template)}')
            continue
        for pred, (hname, follow) in zip(hs, template):
            if follow is not None and pred(follow[0]):
                bad.append(f'{name}: the character {follow[0]!r} that follows hole <{hname}> is inside the hole\'s class (ambiguous split)')
    R.ob('reading.regex:determinism criterion -- the separator after each hole is outside the hole\'s character class', 'rx_key/rx_h5file/rx_checkpoint',
         'refuted' if bad else 'discharged', 'sre-syntactic', time.time() - t0, '; '.join(bad), bad or None)
    # (ii) adversarial enumeration
    t0 = time.time()
    bad, n = [], 0
    thorns = ['ADMBASE', 'a', 'ML_BSSN', 'it=3 tl=0', 'x y', 'rl=1', 'c']
    variables = ['gxx', 'vel[0]', 'a::b', 'x_it=5', 'rl=1', 'c=3', 'm=0', 'tl=0', 'Psi4r', 'it', 'A::B::C']
    nums = [0, 7, 10, 128, 99999]
    for th, v, it, tl in itertools.product(thorns, variables, nums, [0, 1]):
        for m0, rl, c in itertools.product([False, True], [None, 0, 1, 10], [None, 0, 12]):
            n += 1
            key = f'{th}::{v} it={it} tl={tl}' + (' m=0' if m0 else '') + (f' rl={rl}' if rl is not None else '') + (f' c={c}' if c is not None else '')
            p = Rm.parse_hdf5_key(key)
            exp = dict(thorn=th, variable=v, it=it, tl=tl, m=0 if m0 else None, rl=rl, c=c)
            if p is None or any(p[k] != exp[k] for k in exp) or p['combined variable name'] != th + '::' + v:
                bad.append(f'{key!r} -> {p}')
    for key in ['nokey', 'a:b it=0 tl=0', '::x it=0 tl=0', 'a::b it= tl=0']:
        n += 1
        if Rm.parse_hdf5_key(key) is not None:
            bad.append(f'{key!r} accepted')
    prefixes = ['', '/a/b/', '/data/restart/run.file_3.xyz/b-c/', './it_5/checkpoint.chkpt/', '/x/rho.h5/']
    groups = [None, 'admbase', 'ml_bssn', 'a_b', 'hydrobase']
    names = ['rho', 'metric', 'vel[0]', 'xyz', 'file_3', 'h5', 'x_xyz', 'w_lorentz', 'ml_ham']
    for pre, gp, nm, xp, ch, xs in itertools.product(prefixes, groups, names, [False, True], [None, 0, 12], [False, True]):
        if ch is None and xs:
            continue          # without a chunk number '.xyz' before and after coincide: one spelling only
        n += 1
        fname = (gp + '-' if gp else '') + nm + ('.xyz' if xp else '') + (f'.file_{ch}' if ch is not None else '') + ('.xyz' if xs else '') + '.h5'
        p = Rm.parse_h5file(pre + fname)
        ok = (p is not None and p.get('thorn') == gp and p.get('variable_or_group') == nm and p.get('chunk_number') == ch
              and bool(p.get('xyz_prefix')) == xp and bool(p.get('xyz_suffix')) == xs and p.get('group_file') == (gp is not None)
              and p.get('base_name') == ((gp + '-' + nm) if gp else None))
        if not ok:
            bad.append(f'{pre + fname!r} -> {p}')
    for pre, it, ch in itertools.product(prefixes, [0, 5, 1024], [None, 0, 33]):
        n += 1
        fname = f'checkpoint.chkpt.it_{it}' + (f'.file_{ch}' if ch is not None else '') + '.h5'
        p = Rm.parse_h5file(pre + fname)
        if p is None or p.get('iteration') != it or p.get('chunk_number') != ch:
            bad.append(f'{pre + fname!r} -> {p}')
    R.bounded.append(dict(function='parse_hdf5_key / parse_h5file', bound=f'{n} generated names over adversarial hole values and path prefixes'))
    R.ob('reading.regex:parse(format(holes)) == holes on adversarial names and paths', 'parse_hdf5_key/parse_h5file',
         'refuted' if bad else 'bounded-ok', 'bounded-native', time.time() - t0, '; '.join(bad[:5]), bad[:8] or None, bounded=f'{n} names')


# ------------------------------------------------------------------ O2
def writer_templates():
    """line templates written by iterations(): list of parts, a part is a literal str or a hole (kind)"""
    import aurel.reading as Rm
    tree = ast.parse(textwrap.dedent(inspect.getsource(Rm.iterations)))
    tmpl = []

    def parts_of(node):
        if isinstance(node, ast.Constant) and isinstance(node.value, str):
            return [node.value]
        if isinstance(node, ast.JoinedStr):
            out = []
            for v in node.values:
                out += [v.value] if isinstance(v, ast.Constant) else [('hole', ast.unparse(v.value))]
            return out
        if isinstance(node, ast.BinOp) and isinstance(node.op, ast.Add):
            return parts_of(node.left) + parts_of(node.right)
        return [('hole', ast.unparse(node))]
    for n in ast.walk(tree):
        if isinstance(n, ast.Call) and isinstance(n.func, ast.Name) and n.func.id == 'saveprint' and len(n.args) >= 2:
            tmpl.append(parts_of(n.args[1]))
    return tmpl


def reader_markers():
    """ordered substring tests of read_iterations() and the restarts_done marker of iterations()"""
    import aurel.reading as Rm
    tree = ast.parse(textwrap.dedent(inspect.getsource(Rm.read_iterations)))
    marks = []
    loop = [n for n in ast.walk(tree) if isinstance(n, ast.For) and isinstance(n.target, ast.Name) and n.target.id == 'li'][0]
    node = loop.body[0]
    while isinstance(node, ast.If):           # the top-level if / elif chain only
        t = node.test
        if isinstance(t, ast.Compare) and isinstance(t.ops[0], ast.In) and isinstance(t.left, ast.Constant):
            marks.append(t.left.value)
        node = node.orelse[0] if node.orelse else None
    tree2 = ast.parse(textwrap.dedent(inspect.getsource(Rm.iterations)))
    done = [n.test if False else None for n in []]
    scan = None
    for n in ast.walk(tree2):
        if isinstance(n, ast.ListComp):
            for g in n.generators:
                for cond in g.ifs:
                    if isinstance(cond, ast.Compare) and isinstance(cond.ops[0], ast.In) and isinstance(cond.left, ast.Constant) \
                            and ast.unparse(cond.comparators[0]) == 'line':
                        scan = cond.left.value
    return marks, scan


def hole_alphabet(expr):
    e = expr.replace(' ', '')
    if any(w in e for w in ('restart', 'np.min', 'np.max', 'np.diff', 'allits', 'rl}')) and 'datapath' not in e and 'file_for_it' not in e and 'vars' not in e:
        return '0123456789[] '        # numbers, or a one-element array printed as [n]
    if 'aurel_vars_available' in e:
        return 'abcdefghijklmnopqrstuvwxyzABCDEFGHIJKLMNOPQRSTUVWXYZ0123456789_[]\', '
    if 'checkpoint_its' in e:
        return '0123456789[], '
    if e in ('rlkey', 'itkey'):
        return None
    return FN_ALPHABET


def can_contain(parts, marker):
    """can an instance of the template (holes over their alphabets, any length) contain `marker` as a substring?
    product of the template automaton with the KMP automaton of the marker (exact)."""
    # states: set of matched-prefix lengths of marker (NFA of '.*marker'); accept when len(marker) reached
    def step(states, chars):
        """all next state sets reachable by one character from `chars` (returns set of frozensets) -- we track the union
        nondeterministically per character, so enumerate characters"""
        out = set()
        for ch in chars:
            ns = {0}
            for s in states:
                if s < len(marker) and marker[s] == ch:
                    ns.add(s + 1)
            out.add(frozenset(ns))
        return out
    frontier = {frozenset({0})}
    for p in parts:
        if isinstance(p, str):
            for ch in p:
                nf = set()
                for st in frontier:
                    nf |= step(st, [ch])
                frontier = nf
                if any(len(marker) in st for st in frontier):
                    return True
        else:
            alpha = hole_alphabet(p[1])
            if alpha is None:
                return None
            # Kleene star: iterate to a fixpoint
            seen = set(frontier)
            work = list(frontier)
            while work:
                st = work.pop()
                for ns in step(st, alpha):
                    if len(marker) in ns:
                        return True
                    if ns not in seen:
                        seen.add(ns)
                        work.append(ns)
            frontier = seen
    return False


def dispatch_obligations(R):
    import aurel.reading as Rm
    R.under_contract(Rm.iterations)
    R.under_contract(Rm.read_iterations)
    t0 = time.time()
    tmpls = writer_templates()
    marks, scan = reader_markers()
    # rlkey + ' at ' + itkey is composed from two f-strings defined earlier: expand it by hand from the same AST
    expanded = []
    for t in tmpls:
        if any(isinstance(p, tuple) and p[1] in ('rlkey', 'itkey') for p in t):
            expanded.append(['rl = ', ('hole', 'rl}'), ' at ', 'it = np.arange(', ('hole', 'np.min(allits)'), ', ', ('hole', 'np.max(allits)'), ', ', ('hole', 'np.diff(allits)'), ')'])
            expanded.append(['rl = ', ('hole', 'rl}'), ' at ', 'it = ', ('hole', 'allits')])
        else:
            expanded.append(t)
    bad, pairs = [], 0
    undec = []

    def owner(t):
        lit = ''.join(p for p in t if isinstance(p, str))
        for i, m in enumerate(marks):
            if m in lit:
                return i
        return None
    for t in expanded:
        o = owner(t)
        show = ''.join(p if isinstance(p, str) else '{' + p[1] + '}' for p in t)
        earlier = marks[:o] if o is not None else marks
        for m in earlier:
            pairs += 1
            r = can_contain(t, m)
            if r is None:
                undec.append(show)
            elif r:
                bad.append(f'line {show!r} can contain the marker {m!r} of an earlier parser branch')
        if scan is not None and (o is None or marks[o] != scan):
            pairs += 1
            r = can_contain(t, scan)
            if r:
                bad.append(f'line {show!r} can contain the restarts_done marker {scan!r}')
    R.trust(f'catalogue alphabet: simulation paths and names over [{FN_ALPHABET}] (no spaces, no ">"), variable names over [A-Za-z0-9_\\[\\]]')
    st = 'refuted' if bad else ('undecided' if undec else 'discharged')
    R.ob('reading.catalogue:no line written by iterations() is claimed by an earlier branch of read_iterations() or by the restarts_done scan',
         'iterations/read_iterations', st, 'automaton-product', time.time() - t0,
         '; '.join(bad[:4]) or (f'templates not understood: {undec[:2]}' if undec else f'{len(expanded)} templates x markers = {pairs} language-emptiness queries'),
         bad[:8] or None)
    R.extra['catalogue_templates'] = [''.join(p if isinstance(p, str) else '{' + p[1] + '}' for p in t) for t in expanded]
    R.extra['parser_markers_in_order'] = marks + [f'(restarts_done) {scan}']


# ------------------------------------------------------------------ O3
def norm(x):
    if isinstance(x, dict):
        return {k: norm(v) for k, v in x.items()}
    if isinstance(x, (list, tuple, np.ndarray)):
        return [norm(v) for v in x]
    if isinstance(x, (np.integer,)):
        return int(x)
    return x


def catalogue_case(args):
    simname, layout, pattern = args[:3]
    RLS = tuple(args[3]) if len(args) > 3 else (0, 1)
    import aurel
    root = tempfile.mkdtemp(prefix='c18_')
    bad = []
    try:
        rs = pattern
        truth = etgen.make_sim(root, simname, layout, restarts=rs, shape=(4, 3, 3), cuts=(2, 1, 1) if layout[0] == 'proc' else (1, 1, 1),
                               ghost=1, rls=RLS, variables=('alp', 'betax', 'betay', 'betaz'))
        p = etgen.param_for(root, simname)
        # what SimFactory leaves next to the restarts: the 'active' symlink of the restart being written, and stray entries
        last_r = max(r_[0] for r_ in rs)
        try:
            os.symlink(f'output-{last_r:04d}', os.path.join(root, simname, f'output-{last_r:04d}-active'))
        except OSError:
            pass
        os.makedirs(os.path.join(root, simname, 'output-0000.bak'), exist_ok=True)
        os.makedirs(os.path.join(root, simname, 'SIMFACTORY'), exist_ok=True)
        # fresh scan of everything
        full = aurel.iterations(p, skip_last=False, verbose=False)
        extra_r = [k_ for k_ in full if isinstance(k_, (int, np.integer)) and int(k_) not in [r_[0] for r_ in rs]]
        if extra_r or len([k_ for k_ in full if isinstance(k_, (int, np.integer))]) != len(rs):
            bad.append(f'catalogue lists restarts {sorted(int(k_) for k_ in full if isinstance(k_, (int, np.integer)))}, the directory holds {[r_[0] for r_ in rs]}')
        for rnum, its, gen in rs:
            ent = full.get(rnum)
            if ent is None:
                bad.append(f'restart {rnum} missing from the catalogue')
                continue
            if sorted(ent.get('var available', [])) != ['alpha', 'betaup3']:
                bad.append(f'restart {rnum}: variables {ent.get("var available")}')
            if norm(ent.get('its available')) != [min(its), max(its)]:
                bad.append(f'restart {rnum}: its available {ent.get("its available")} for {its}')
            for rl in RLS:
                got = norm(ent.get(f'rl = {rl}'))
                strides = set(np.diff(its)) if len(its) > 1 else set()
                if len(its) == 1:
                    exp = [its[0]]
                elif len(strides) == 1:
                    exp = [min(its), max(its), int(np.diff(its)[0])]
                else:
                    exp = None
                if exp is not None and got != exp:
                    bad.append(f'restart {rnum} rl={rl}: {got} for iterations {its}')
                if exp is None:
                    covered = set(range(got[0], got[1] + 1, got[2])) if got and len(got) == 3 else set(got or [])
                    if covered != set(its):
                        bad.append(f'NONUNIFORM restart {rnum} rl={rl}: catalogue {got} denotes {sorted(covered)} but the files hold {its}')
            if norm(ent.get('checkpoints')) != []:
                bad.append(f'restart {rnum}: checkpoints {ent.get("checkpoints")}')
        # text parses back to the in-memory result
        back = aurel.read_iterations(p, verbose=False)
        a = {k: v for k, v in norm(full).items() if k != 'overall'}
        b = {k: v for k, v in norm(back).items() if k != 'overall'}
        if a != b:
            bad.append(f'iterations.txt parses back differently: {b} vs in-memory {a}')
        if [k for k in back] != [k for k in full if k != 'overall']:
            bad.append(f'read_iterations lists the restarts in the order {list(back)}, iterations() in {[k for k in full if k != "overall"]}')
        # repeat call = same (entries, their order -- read_ET_data walks the restarts in dictionary order -- and the summary)
        again = aurel.iterations(p, skip_last=False, verbose=False)
        if {k: v for k, v in norm(again).items() if k != 'overall'} != a:
            bad.append('second call of iterations() differs from the first')
        third = aurel.iterations(p, skip_last=False, verbose=False)
        for lab, res in (('second', again), ('third', third)):
            if list(res) != list(full):
                bad.append(f'{lab} call of iterations() lists the entries in the order {list(res)}, the fresh scan in {list(full)}')
            if norm(res).get('overall') != norm(full).get('overall'):
                bad.append(f"{lab} call of iterations(): 'overall' is {norm(res).get('overall')}, the fresh scan gave {norm(full).get('overall')}")
        # the summary denotes exactly the iterations on disk (uniform strides; the non-uniform case is the recorded finding)
        if all(len(set(np.diff(its))) <= 1 for _, its, _ in rs):
            alls = sorted({i for _, its, _ in rs for i in its})
            for rl in RLS:
                ov = norm(full).get('overall', {}).get(f'rl = {rl}')
                den = set()
                for seg in ov or []:
                    den |= set(range(seg[0], seg[1] + 1, seg[2])) if isinstance(seg, list) and len(seg) == 3 else set(seg if isinstance(seg, list) else [seg])
                if ov is not None and not den >= set(alls):
                    bad.append(f"'overall' rl={rl}: {ov} does not cover the iterations on disk {alls}")
        # incremental = fresh: new directory with the last restart added later
        if len(rs) > 1:
            root2 = tempfile.mkdtemp(prefix='c18b_')
            try:
                etgen.make_sim(root2, simname, layout, restarts=rs[:-1], shape=(4, 3, 3), cuts=(2, 1, 1) if layout[0] == 'proc' else (1, 1, 1),
                               ghost=1, rls=RLS, variables=('alp', 'betax', 'betay', 'betaz'))
                p2 = etgen.param_for(root2, simname)
                # while the run is going on, the last restart is 'active' and must be skipped with skip_last=True
                if len(rs) > 2:
                    act = rs[-2][0]
                    os.symlink(f'output-{act:04d}', os.path.join(root2, simname, f'output-{act:04d}-active'))
                    part = aurel.iterations(p2, skip_last=True, verbose=False)
                    if act in part and isinstance(part[act], dict) and part[act]:
                        bad.append(f'skip_last=True catalogued the active restart {act}: {norm(part[act])}')
                    os.remove(os.path.join(root2, simname, f'output-{act:04d}-active'))
                aurel.iterations(p2, skip_last=False, verbose=False)
                etgen.make_sim(root2, simname, layout, restarts=rs[-1:], shape=(4, 3, 3), cuts=(2, 1, 1) if layout[0] == 'proc' else (1, 1, 1),
                               ghost=1, rls=RLS, variables=('alp', 'betax', 'betay', 'betaz'))
                inc = aurel.iterations(p2, skip_last=True, verbose=False)       # last one still skipped
                inc = aurel.iterations(p2, skip_last=False, verbose=False)
                if {k: v for k, v in norm(inc).items() if k != 'overall'} != a:
                    bad.append(f'incremental cataloguing differs from a fresh scan: {norm(inc)} vs {a}')
                inc2 = aurel.iterations(p2, skip_last=False, verbose=False)
                for lab, res in (('incremental', inc), ('call after the incremental one', inc2)):
                    if list(res) != list(full):
                        bad.append(f'{lab}: entries in the order {list(res)}, the fresh scan in {list(full)}')
                    if norm(res).get('overall') != norm(full).get('overall'):
                        bad.append(f"{lab}: 'overall' is {norm(res).get('overall')}, the fresh scan gave {norm(full).get('overall')}")
            finally:
                shutil.rmtree(root2, ignore_errors=True)
        # get_content: scan vs cached JSON vs overwrite
        for rnum, its, gen in rs[:2]:
            c1 = aurel.get_content(p, restart=rnum, verbose=False)
            c2 = aurel.get_content(p, restart=rnum, verbose=False)
            c3 = aurel.get_content(p, restart=rnum, verbose=False, overwrite=True)
            n1 = {k: sorted(os.path.basename(f) for f in v) for k, v in c1.items()}
            if n1 != {k: sorted(os.path.basename(f) for f in v) for k, v in c2.items()} or n1 != {k: sorted(os.path.basename(f) for f in v) for k, v in c3.items()}:
                bad.append(f'get_content: scan / cached / overwrite differ for restart {rnum}')
            files = sorted(f for f in os.listdir(os.path.join(root, simname, f'output-{rnum:04d}', simname)) if f.endswith('.h5'))
            exp = {}
            for var in ('alp', 'betax', 'betay', 'betaz'):
                grp = etgen.GROUPS[var][1] if layout[1] == 'grouped' else var
                fl = tuple(sorted(f for f in files if f.startswith(grp + '.')))
                exp.setdefault(fl, []).append(var)
            expd = {tuple(sorted(v)): list(k) for k, v in exp.items()}
            if n1 != expd:
                bad.append(f'get_content restart {rnum}: {n1} vs on disk {expd}')
    except Exception as e:
        import traceback
        bad.append(f'raised {type(e).__name__}: {e} :: {traceback.format_exc()[-300:]}')
    finally:
        shutil.rmtree(root, ignore_errors=True)
    return [f'[{simname}, {layout}, {pattern}] {b}' for b in bad]


def module_state(mod):
    """deep snapshot of the mutable module-level objects of a module (frame of its functions)"""
    import copy
    out = {}
    for k, v in vars(mod).items():
        if isinstance(v, (dict, list, set)) and not k.startswith('__'):
            try:
                out[k] = copy.deepcopy(v)
            except Exception:
                out[k] = repr(v)
    return out


def unknown_group_case(_=None):
    """group files whose thorn-group is NOT in known_groups (their variables are read from the file): two restarts and a
    second simulation with DIFFERENT variable sets, all scanned in one process, in two orders.  ensures: every scan reports
    what is in that directory (a function of the directory only) and no module-level state of aurel.reading changes."""
    import aurel
    import aurel.reading as Rm
    bad = []
    G = lambda *vs: {v: ('SCALARFIELD', 'scalarfield-fields') for v in vs}
    sims = [('sfrun', [((0, [0, 2], 0), ('phi', 'Pi')), ((1, [2, 4], 1), ('phi', 'Pi', 'chi'))]),
            ('sfother', [((0, [0, 2], 0), ('sigma', 'omega'))])]
    for layout in (('onefile', 'grouped'), ('proc', 'grouped')):
        for order in (0, 1):
            root = tempfile.mkdtemp(prefix='c18u_')
            try:
                for simname, parts in sims:
                    for rs, vs in parts:
                        etgen.make_sim(root, simname, layout, restarts=[rs], shape=(4, 3, 3), cuts=(2, 1, 1) if layout[0] == 'proc' else (1, 1, 1),
                                       ghost=1, rls=(0,), variables=vs, groups=G(*vs))
                before = module_state(Rm)
                todo = [(simname, rs[0], vs) for simname, parts in sims for rs, vs in parts]
                if order:
                    todo = todo[::-1]
                for simname, rnum, vs in todo:
                    p = etgen.param_for(root, simname)
                    for kw in (dict(), dict(overwrite=True)):
                        c = aurel.get_content(p, restart=rnum, verbose=False, **kw)
                        got = sorted(v for k in c for v in k)
                        if got != sorted(vs):
                            bad.append(f'layout {layout}, scan order {[t[:2] for t in todo]}: get_content({simname}, restart={rnum}, {kw}) reports variables {got}, the files hold {sorted(vs)}')
                for simname, parts in sims:
                    full = aurel.iterations(etgen.param_for(root, simname), skip_last=False, verbose=False)
                    for rs, vs in parts:
                        got = sorted(full[rs[0]]['var available'])
                        if got != sorted(vs):
                            bad.append(f'layout {layout}: iterations({simname})[{rs[0]}]["var available"] = {got}, the files hold {sorted(vs)}')
                after = module_state(Rm)
                changed = [k for k in before if before[k] != after.get(k)] + [k for k in after if k not in before]
                if changed:
                    bad.append(f'module-level state of aurel.reading written by cataloguing calls: {changed}')
            except Exception as e:
                import traceback
                bad.append(f'raised {type(e).__name__}: {e} :: {traceback.format_exc()[-300:]}')
            finally:
                shutil.rmtree(root, ignore_errors=True)
            if bad:
                return bad
    return bad


MUTATORS = {'append', 'extend', 'update', 'setdefault', 'pop', 'popitem', 'remove', 'clear', 'add', 'discard', 'insert', 'sort', 'reverse', '__setitem__', '__delitem__'}


def module_frame_obligation(R):
    """frame of every function of aurel.reading with respect to module-level state: no `global` statement, and no
    mutation (item assignment / deletion, augmented assignment, mutating method) of a module-level dict / list / set,
    directly or through a local alias `x = NAME` (flow-insensitive, one level -- deeper aliasing is covered dynamically by
    the module-state snapshot of the unknown-group scenario)."""
    import aurel.reading as Rm
    from engine.modframe import module_frame
    t0 = time.time()
    bad, nfun, modstate = module_frame(Rm)
    R.ob('reading.*:frame -- no function writes module-level state (result depends on the arguments and the directory only)', 'get_content',
         'refuted' if bad else 'discharged', 'ast-frame', time.time() - t0, '; '.join(bad[:4]) or f'{nfun} functions, module-level containers {sorted(modstate)}',
         bad[:6] or None, replay=lambda o: (lambda ug: (bool(ug), '; '.join(ug[:3]) or 'the unknown-group scenario shows no stale state'))(unknown_group_case()))


def catalogue_cases(tier):
    names = ['sim', 'restart_run', 'my-run.v2', 'rl_it_3D', 'Checkpoints_available', 'run.file_3.x', 'checkpoint.chkpt.it_4']
    layouts = list(itertools.product(('onefile', 'proc'), ('ungrouped', 'grouped')))
    patterns = [[(0, [0, 2, 4], 0)], [(0, [0, 4, 8], 0), (1, [8, 12], 1)], [(0, [6], 0), (1, [6, 9, 12], 1), (2, [12], 2)],
                [(0, [0, 4, 8, 10], 0), (1, [10, 14], 1)],
                [(0, [0, 4, 8], 0), (1, [10, 12, 14], 1), (2, [16, 18, 20], 2), (3, [22, 24], 3)]]
    cases = []
    for i, (nm, lay) in enumerate(itertools.product(names, layouts)):
        cases.append((nm, lay, patterns[i % len(patterns)]))
    # many restarts (two-digit restart numbers, contiguous and with gaps)
    many = [(r, [r * 40 + 8 * k for k in range(5)], r) for r in range(12)]
    gaps = [(0, [0, 4, 8], 0), (2, [12, 16], 1), (10, [20, 24, 28], 2), (11, [32, 36], 3), (101, [40, 44], 4)]
    cases += [('sim', layouts[1], many), ('restart_run', layouts[2], gaps), ('sim', layouts[0], gaps)]
    # many refinement levels (two-digit level numbers)
    cases += [('sim', layouts[1], patterns[1], tuple(range(12))), ('my-run.v2', layouts[0], patterns[4], (0, 1, 2, 10, 11))]
    if tier != 'quick':
        for nm, lay, pat in itertools.product(names[:3], layouts, patterns):
            cases.append((nm, lay, pat))
    return cases


def catalogue_obligations(R, tier, known_nonuniform):
    import multiprocessing as mp
    import aurel.reading as Rm
    R.under_contract(Rm.get_content)
    cases = catalogue_cases(tier)
    t0 = time.time()
    with mp.Pool(min(14, len(cases))) as pool:
        res = pool.map(catalogue_case, cases, chunksize=1)
    bad = [b for r in res for b in r]
    with mp.Pool(1) as pool:
        ug = pool.map(unknown_group_case, [0])[0]
    R.ob('reading.get_content/iterations:a function of the directory only (unknown group files, several directories in one process); no module-level state written',
         'get_content', 'refuted' if ug else 'bounded-ok', 'bounded-native', 0.0, '; '.join(ug[:3]), ug[:6] or None,
         bounded='2 simulations, 3 restart directories with different variable sets in an unknown group, 2 layouts, 2 scan orders', replay=lambda o: (bool(ug), '; '.join(ug[:3])))
    nonuni = [b for b in bad if 'NONUNIFORM' in b]
    other = [b for b in bad if 'NONUNIFORM' not in b]
    R.bounded.append(dict(function='iterations / read_iterations / get_content on generated directories',
                          bound=f'{len(cases)} directories: 5 simulation names (incl. catalogue words), 4 layouts, restart/iteration patterns (single, strided, 3 restarts with single-iteration restarts, mixed strides, 12 contiguous restarts, restart numbers with gaps 0,2,10,11,101), 2 levels; call sequences: fresh, second and third call, incremental with skip_last and the call after it, get_content scan/cached/overwrite; entries, their order and the overall summary compared'))
    R.ob('reading.catalogue:reports == what is on disk; text parses back; repeat and incremental calls == fresh scan', 'iterations',
         'refuted' if other else 'bounded-ok', 'bounded-native', time.time() - t0, '; '.join(other[:3]), other[:8] or None,
         bounded=f'{len(cases)} generated directories', replay=lambda o: (bool(other), '; '.join(other[:3])))
    R.ob('reading.catalogue:non-uniform iteration spacing is reported faithfully', 'iterations', 'refuted' if nonuni else 'bounded-ok', 'bounded-native', 0.0,
         '; '.join(nonuni[:2]), ['nonuniform-stride'] if nonuni else None, bounded='pattern [0,4,8,10]',
         replay=lambda o: (bool(nonuni), '; '.join(nonuni[:2])))


def run(R):
    from engine.canary import run_canaries
    run_canaries(R, ('symx',))
    R.assume('A4', 'A6')
    R.trust('os.listdir / glob / json / open behave as a file system (A4)')
    regex_obligations(R)
    dispatch_obligations(R)
    module_frame_obligation(R)
    catalogue_obligations(R, R.tier, None)
    R.notes.append('parameters() (.par parser) is not under contract; the "overall" summary of collect_overall_iterations is only checked for stability across calls and for covering the iterations on disk (bounded, generated directories), not against a contract of its own')
    R.extra['explanation'] = ('regex determinism criterion on the real patterns + adversarial enumeration; catalogue line dispatch decided by automaton products over the stated '
                              'alphabets; directory scans bounded on generated simulations')
