"""Model for the Einstein-Toolkit reader driver (read_ET_data): contracts of its callees.

read_ET_data is run for real (globals re-bound) with
  iterations(param, ...)            -> the catalogue dict supplied by the scenario (contract of C18)
  get_content(param, restart=...)   -> vars_and_files of the scenario layout (contract of C18)
  read_ET_variables(param, var, ..) -> Truth tokens  T(var, it, restart, rl)  for the scalar components of `var`
                                       and 'it' = sorted(set(it)) (contract proved/bounded in C11)
  read_aurel_data / save_data       -> the REAL functions on the file-system model (engine/fsmodel.py)
so that restart selection, flattening and the per-iteration cache logic are exercised on opaque contents.
"""
import types
import z3

from engine import fsmodel as FM
from engine.fsmodel import Tok, FS, ZList
from engine.symx import Z

SCALARS = {'alpha': ['alpha'], 'betaup3': ['betax', 'betay', 'betaz'], 'betax': ['betax'], 'betay': ['betay'], 'betaz': ['betaz'],
           'gammadown3': ['gxx', 'gxy', 'gxz', 'gyy', 'gyz', 'gzz'], 'gxx': ['gxx'], 'rho0': ['rho0']}


class Truth:
    """T(var, it, restart, rl): one opaque array per quadruple (memoised; iteration may be symbolic)"""

    def __init__(self):
        self.mem = []

    def get(self, var, it, restart, rl):
        for k, v in self.mem:
            if k[0] == var and k[2] == restart and k[3] == rl and bool(k[1] == it):
                return v
        t = Tok(f'{var}@it={it}/r{restart}/rl{rl}')
        t.quad = (var, it, restart, rl)
        self.mem.append(((var, it, restart, rl), t))
        return t


def build(fs, catalogue, grouped, truth, log):
    """-> dict of the real reading functions re-bound to the model"""
    import aurel.reading as Rm
    fns, g = FM.rebind_reading(fs)

    def iterations(param, **kw):
        import copy
        return {k: (dict(v) if isinstance(v, dict) else v) for k, v in catalogue.items()}

    def get_content(param, **kw):
        if grouped:
            return {('alp',): ['admbase-lapse.h5'], ('betax', 'betay', 'betaz'): ['admbase-shift.h5'],
                    ('gxx', 'gxy', 'gxz', 'gyy', 'gyz', 'gzz'): ['admbase-metric.h5'], ('rho',): ['hydrobase-rho.h5']}
        return {(v,): [v + '.h5'] for v in ('alp', 'betax', 'betay', 'betaz', 'gxx', 'gxy', 'gxz', 'gyy', 'gyz', 'gzz', 'rho')}

    def read_ET_variables(param, var, vars_and_files, **kw):
        its = sorted(set(kw.get('it', [0])), key=FM_key)
        restart, rl = kw.get('restart', 0), kw.get('rl', 0)
        log.append(('ET-read', tuple(var), tuple(its), restart, rl))
        out = {'it': ZList(its), 't': [truth.get('t', i, restart, 0) for i in its]}
        names = []
        for v in var:
            if grouped and v in ('betax', 'betay', 'betaz'):
                names += ['betax', 'betay', 'betaz']          # a grouped file delivers the whole group
            elif grouped and v in ('gxx', 'gxy', 'gxz', 'gyy', 'gyz', 'gzz'):
                names += ['gxx', 'gxy', 'gxz', 'gyy', 'gyz', 'gzz']
            else:
                names += SCALARS.get(v, [v])
        for n in dict.fromkeys(names):
            out[n] = [truth.get(n, i, restart, rl) for i in its]
        return out

    def read_ET_checkpoints(param, var, **kw):
        raise NotImplementedError('checkpoints are outside this model')
    g.update(iterations=iterations, get_content=get_content, read_ET_variables=read_ET_variables,
             read_ET_checkpoints=read_ET_checkpoints, print=lambda *a, **k: None)
    return fns, g


class FM_key:
    def __init__(self, z): self.z = z
    def __lt__(self, o): return bool(self.z < o.z)


def zlist_abs(self):
    return ZList([abs(a) for a in self])


ZList.__abs__ = zlist_abs


def expected_restart(catalogue, iit):
    """largest restart whose inclusive range contains iit (python bool tests fork the path)"""
    best = None
    for r in sorted(k for k in catalogue if isinstance(k, int)):
        rng = catalogue[r].get('its available')
        if rng is None:
            continue
        if len(rng) == 1:
            inside = bool(rng[0] == iit)
        else:
            inside = bool(rng[0] <= iit) and bool(iit <= rng[1])
        if inside:
            best = r
    return best
