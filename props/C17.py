"""C17 bundled analytic spacetimes are what they claim to be.

Each solution module is re-bound (np -> jet shim, scipy.special.hyp2f1 -> jet-aware) and its real
functions are evaluated on order-2 Taylor jets in (t,x,y,z) with float64 coefficients at random points
of the domain.  Obligations per module (as far as it offers the functions):
  (a) numeric code path == analytical=True path (sympy expression evaluated to 40 digits);
  (b) K_ij == -(d_t gamma_ij - L_beta gamma_ij) / (2 alpha) with d_t from the jets;
  (c) G_mn[g] + Lambda g_mn == kappa T_mn, with G from the textbook 4D chain of engine/universe.py applied to
      the module's own metric jets, T = Tdown4 or the comoving perfect fluid of rho / press;
  (d) shipped closed-form scalars (Kretschmann, st_RicciS, null expansion, FLRW helper relations).
Back end: `float64-jets` -- exact derivatives by jet arithmetic, values in binary64, residual tolerance 1e-8
relative.  This is NUMERIC evidence at sampled points, never counted as proved (the identities involve sin,
sinh, irrational powers and 2F1).  ICPertFLRW is a first-order perturbative initial condition (not an exact
solution) and is excluded from (b)/(c).
"""
import importlib
import itertools
import math
import random
import time
from fractions import Fraction
import numpy as np

from engine.jets import Field, J, ZERO_MI, NV, Undecided, NeedResample
from engine.e1 import RebMod, ShimNP, tens, untens
from engine.universe import arr, ozeros, gauss_inverse, christoffel, riemann_uddd, dd, D3, D4

LEVEL = 'other'
TOL = 1e-8
MODULES = ['Non_diagonal', 'Rosquist_Jantzen', 'Collins_Stewart', 'Harvey_Tsoubelis', 'Conformally_flat',
           'Schwarzschild_isotropic', 'Szekeres', 'LCDM', 'EdS']
DOMAIN = {  # (t range, xyz range) away from coordinate singularities
    'Non_diagonal': ((1.2, 3.0), (-10.0, 10.0)), 'Rosquist_Jantzen': ((0.8, 3.0), (-2.0, 2.0)),
    'Collins_Stewart': ((0.8, 3.0), (-2.0, 2.0)), 'Harvey_Tsoubelis': ((0.8, 3.0), (-2.0, 2.0)),
    'Conformally_flat': ((0.0, 1.0), (-1.5, 1.5)), 'Schwarzschild_isotropic': ((0.0, 1.0), (1.0, 4.0)),
    'Szekeres': ((2000.0, 9000.0), (-4.0, 4.0)), 'LCDM': ((2000.0, 9000.0), (-4.0, 4.0)), 'EdS': ((2000.0, 9000.0), (-4.0, 4.0)),
}


def fv(v):
    return float(v.value()) if isinstance(v, J) else float(v)


class ShimSC:
    def hyp2f1(self, a, b, c, zz):
        import scipy.special as sc

        def f(e):
            if not isinstance(e, J):
                return sc.hyp2f1(a, b, c, e)
            z0 = e.value()
            ders = []
            poch = 1.0
            top = e.o if e.o < 90 else 0
            for n in range(top + 1):
                ders.append(poch * sc.hyp2f1(a + n, b + n, c + n, z0))
                poch *= (a + n) * (b + n) / (c + n)
            return e.compose(ders)
        if isinstance(zz, np.ndarray):
            from engine.jets import omap
            return omap(f, zz)
        return f(zz)


def load(name, F):
    import aurel.maths as M
    real = importlib.import_module(f'aurel.solutions.{name}')
    shim = ShimNP(F)
    over = {'np': shim, 'sc': ShimSC(), 'maths': RebMod(M, {'np': shim})}
    if name == 'Szekeres':
        over['LCDM'] = load('LCDM', F)[0]
    return RebMod(real, over), real


def point(name, rng, F, strata=None):
    """strata = (k, n, perms): Latin-hypercube sampling -- the k-th of n points takes, on every axis, a different one of
    n equal slices of the range, so that every part of the domain of every coordinate is visited (a region-dependent
    error, e.g. a lost sign over half a period, cannot hide between the points)"""
    (t0, t1), (x0, x1) = DOMAIN[name]
    if strata is None:
        vals = [rng.uniform(t0, t1)] + [rng.uniform(x0, x1) for _ in range(3)]
    else:
        k, n, perms = strata
        rngs = [(t0, t1)] + [(x0, x1)] * 3
        vals = [lo + (hi - lo) * (perms[ax][k] + rng.uniform(0.05, 0.95)) / n for ax, (lo, hi) in enumerate(rngs)]
    js = []
    for ax, v in enumerate(vals):
        js.append(J(F, 2, {ZERO_MI: v, tuple(1 if k == ax else 0 for k in range(NV)): 1.0}))
    t = js[0]
    x, y, z = (tens(j) for j in js[1:])
    return vals, t, x, y, z


def call(mod, fn, t, x, y, z, **kw):
    f = getattr(mod, fn)
    import inspect
    n = len(inspect.signature(getattr(mod._mod, fn)).parameters)
    if n == 1:
        return f(t, **kw) if fn not in ('st_RicciS', 'Omega') else f(x)
    return f(t, x, y, z, **kw)


def as_tensor(v, shape):
    a = np.asarray(v, dtype=object)
    if a.shape[-3:] == (1, 1, 1):
        a = a.reshape(a.shape[:-3])
    if a.shape != shape:
        a = np.broadcast_to(a, shape) if a.size == 1 else a
    return a


def rel_err(a, b, scale=None):
    a, b = np.asarray(a, dtype=float), np.asarray(b, dtype=float)
    sc = (1e-300 + np.max(np.abs(b))) if scale is None else scale
    return float(np.max(np.abs(a - b)) / sc)


def module_checks(name, seed, npts):
    """-> list of (label, worst residual, detail)"""
    rng = random.Random(f'C17/{name}/{seed}')
    out = {}

    def rec(label, err, detail=''):
        o = out.setdefault(label, [0.0, ''])
        if err > o[0] or not o[1]:
            o[0], o[1] = max(o[0], err), detail if err > TOL else o[1]
    perms = [rng.sample(range(npts), npts) for _ in range(4)]
    for pt in range(npts):
        F = Field('f')
        mod, real = load(name, F)
        vals, t, x, y, z = point(name, rng, F, (pt, npts, perms))
        has = lambda n: hasattr(real, n)
        zero, one = J.const(F, 0.0), J.const(F, 1.0)
        gam = as_tensor(call(mod, 'gammadown3', t, x, y, z), (3, 3))
        alpha = as_tensor(call(mod, 'alpha', t, x, y, z), ()) if has('alpha') else np.asarray(one, dtype=object)
        alpha = alpha[()] if isinstance(alpha, np.ndarray) else alpha
        beta = as_tensor(call(mod, 'betaup3', t, x, y, z), (3,)) if has('betaup3') else arr([zero] * 3)
        beta = arr([b if isinstance(b, J) else J.const(F, float(b)) for b in beta])
        gam = arr([[e if isinstance(e, J) else J.const(F, float(e)) for e in row] for row in gam])
        if not isinstance(alpha, J):
            alpha = J.const(F, float(alpha))
        at = dict(zip('txyz', vals))
        # (a) numeric vs analytical
        import sympy as sp
        ts, xs, ys, zs = sp.symbols('t x y z', real=True)
        sub = {ts: sp.Float(vals[0], 40), xs: sp.Float(vals[1], 40), ys: sp.Float(vals[2], 40), zs: sp.Float(vals[3], 40)}
        for fn, val in (('gammadown3', gam), ('gdown4', None), ('alpha', alpha)):
            if not has(fn):
                continue
            import inspect
            if 'analytical' not in inspect.signature(getattr(real, fn)).parameters:
                continue
            try:
                sym = getattr(real, fn)(ts, xs, ys, zs, analytical=True)
            except Exception as e:
                rec(f'(a) {fn}: analytical=True path evaluates', 1.0, f'{type(e).__name__}: {e}')
                continue
            num = val if val is not None else as_tensor(call(mod, fn, t, x, y, z), (4, 4))
            symv = sp.Matrix(sym).subs(sub).evalf(30) if hasattr(sym, 'shape') else sp.sympify(sym).subs(sub).evalf(30)
            a_ = np.array([[fv(e) for e in row] for row in np.atleast_2d(np.asarray(num, dtype=object))])
            b_ = np.array(symv.tolist(), dtype=float) if hasattr(symv, 'tolist') else np.array([[float(symv)]])
            rec(f'(a) {fn}: numeric path == analytical path', rel_err(a_, b_), f'at {at}')
        # (b) K from d_t gamma
        if has('Kdown3'):
            K = as_tensor(call(mod, 'Kdown3', t, x, y, z), (3, 3))
            Dg, Db = D3(gam), D3(beta)
            Lg = (np.einsum('k,kij->ij', beta, Dg) + np.einsum('kj,ik->ij', gam, Db) + np.einsum('ik,jk->ij', gam, Db))
            Kref = (Lg - dd(gam, 0)) / (alpha * 2)
            a_ = np.array([[fv(e) for e in row] for row in K])
            b_ = np.array([[fv(e) for e in row] for row in Kref])
            rec('(b) Kdown3 == -(d_t gamma - L_beta gamma)/(2 alpha)', rel_err(a_, b_, 1e-300 + max(np.max(np.abs(b_)), np.max(np.abs(a_)))), f'at {at}: code {a_.tolist()} vs {b_.tolist()}')
        # (c) Einstein equations
        g = ozeros(4, 4)
        bd = np.einsum('ij,j->i', gam, beta)
        g[0, 0] = -alpha * alpha + np.einsum('i,i->', beta, bd)
        g[0, 1:] = bd
        g[1:, 0] = bd
        g[1:, 1:] = gam
        if has('gdown4'):
            g_mod = as_tensor(call(mod, 'gdown4', t, x, y, z), (4, 4))
            a_ = np.array([[fv(e) for e in row] for row in g_mod])
            b_ = np.array([[fv(e) for e in row] for row in g])
            rec('(c0) gdown4 == 3+1 assembly of alpha, beta, gammadown3', rel_err(a_, b_), f'at {at}')
        gi = gauss_inverse(g)
        Gam = christoffel(g, gi, D4(g))
        Rm = riemann_uddd(Gam, D4(Gam))
        Ric = np.einsum('abad->bd', Rm)
        RS = np.einsum('ab,ab->', gi, Ric)
        G = Ric - g * RS * 0.5
        Lam = float(getattr(real, 'Lambda', 0.0)) if name in ('LCDM', 'EdS') else 0.0
        if name == 'Szekeres':
            Lam = float(real.LCDM.Lambda)
        kappa = float(getattr(real, 'kappa', 8 * math.pi))
        T = None
        if has('Tdown4'):
            T = as_tensor(call(mod, 'Tdown4', t, x, y, z), (4, 4))
        elif has('rho'):
            rho = call(mod, 'rho', t, x, y, z)
            rho = as_tensor(rho, ())[()] if isinstance(rho, np.ndarray) else rho
            p = call(mod, 'press', t, x, y, z) if has('press') else 0.0
            p = as_tensor(p, ())[()] if isinstance(p, np.ndarray) else p
            if has('uup4'):
                uu = as_tensor(call(mod, 'uup4', t, x, y, z), (4,))
                ud = np.einsum('ab,b->a', g, uu)
            else:
                ud = arr([-alpha, zero, zero, zero])
            T = np.einsum('a,b->ab', ud, ud) * (rho + p) + g * p
        if T is not None:
            lhs = np.array([[fv(G[a, b] + g[a, b] * Lam) for b in range(4)] for a in range(4)])
            rhs = np.array([[fv(T[a, b]) * kappa for b in range(4)] for a in range(4)])
            # scale: the curvature of the spacetime (R^a_bcd), so that vacuum solutions (G = T = 0) are judged
            # against the size of the terms that cancel
            sc_ = 1e-300 + max(np.max(np.abs(lhs)), np.max(np.abs(rhs)), max(abs(fv(e)) for e in Rm.flat))
            bad = np.unravel_index(np.argmax(np.abs(lhs - rhs)), lhs.shape)
            rec('(c) G + Lambda g == kappa T', rel_err(lhs, rhs, sc_),
                f'at {at}: component {tuple(int(q) for q in bad)} G+Lg = {lhs[bad]:.10g}, kappa T = {rhs[bad]:.10g}')
        # (d) shipped scalars
        if name == 'Schwarzschild_isotropic':
            Rdn = np.einsum('ai,ibcd->abcd', g, Rm)
            Rup = np.einsum('ae,bf,cg,dh,efgh->abcd', gi, gi, gi, gi, Rdn)
            Kr = np.einsum('abcd,abcd->', Rdn, Rup)
            rec('(d) Kretschmann == R_abcd R^abcd of the metric', rel_err(fv(as_tensor(call(mod, 'Kretschmann', t, x, y, z), ())[()]), fv(Kr)), f'at {at}')
        if name == 'Conformally_flat':
            rec('(d) st_RicciS == Ricci scalar of the metric', rel_err(fv(as_tensor(mod.st_RicciS(x), ())[()]), fv(RS)), f'at {at}')
        if name in ('LCDM', 'EdS'):
            a_j = mod.a(t)
            H = mod.Hprop(t)
            rec('(d) Hprop == (da/dt)/a', rel_err(fv(H), fv(a_j.d(0) / a_j)), f'at t={vals[0]}')
            rec('(d) Friedmann: H^2 == kappa rho/3 + Lambda/3', rel_err(fv(H * H), fv(mod.rho(t) * kappa / 3 + Lam / 3)), f'at t={vals[0]}')
    return out


def icpert_checks(seed, npts):
    """ICPertFLRW on the EdS background: K_ij == -1/2 d_t gamma_ij holds exactly there (F = 5/2, fL = 1), for ANY
    curvature perturbation Rc(x,y,z): Rc is a generic order-4 jet, fd is the C07 contract (exact derivative)."""
    import aurel.solutions.ICPertFLRW as real
    out = {}
    rng = random.Random(f'C17/ICPertFLRW/{seed}')
    for pt in range(npts):
        F = Field('f')
        mod = RebMod(real, {'np': ShimNP(F)})
        sol, _ = load('EdS', F)
        t0 = rng.uniform(2000.0, 9000.0)
        t = J(F, 2, {ZERO_MI: t0, (1, 0, 0, 0): 1.0})
        Rc = tens(J.rand(F, 4, rng, (1, 2, 3)) * 1e-3)

        class FD:
            def d3x(self, f): return dd(f, 1)
            def d3y(self, f): return dd(f, 2)
            def d3z(self, f): return dd(f, 3)
        gam = as_tensor(mod.gammadown3(sol, FD(), t, Rc), (3, 3))
        K = as_tensor(mod.Kdown3(sol, FD(), t, Rc), (3, 3))
        a_ = np.array([[fv(e) for e in row] for row in K])
        b_ = np.array([[fv(-(dd(e, 0)) * 0.5) if isinstance(e, J) else 0.0 for e in row] for row in gam])
        err = rel_err(a_, b_, 1e-300 + np.max(np.abs(b_ - np.diag(np.diag(b_)))) + 1e-12 * np.max(np.abs(b_)))
        o = out.setdefault('(b) Kdown3 == -1/2 d_t gammadown3 on the EdS background, generic Rc (off-diagonal scale)', [0.0, ''])
        if err > o[0]:
            o[0], o[1] = err, f'at t={t0}: K = {a_.tolist()} vs {b_.tolist()}'
        sym = max(abs(a_[i, j] - a_[j, i]) for i in range(3) for j in range(3))
        o2 = out.setdefault('(b\') Kdown3 and gammadown3 symmetric', [0.0, ''])
        o2[0] = max(o2[0], sym)
    return out


# parameters the modules document as free (read at call time, nothing else at module level is derived from them): the
# relations must hold for other values as well, not only for the shipped default
FREE_PARAMS = {'Conformally_flat': ['eps', 'kappa'], 'Schwarzschild_isotropic': ['M', 'kappa'], 'Szekeres': ['Amp'], 'Non_diagonal': ['kappa'],
               'Collins_Stewart': ['kappa'], 'Rosquist_Jantzen': ['kappa'], 'EdS': ['kappa'], 'LCDM': ['kappa']}


def _one(args):
    name, seed, npts = args[:3]
    try:
        if name == 'ICPertFLRW':
            return name, icpert_checks(seed, npts), None
        if len(args) > 3:
            par, factor, shift = args[3:]
            real = importlib.import_module(f'aurel.solutions.{name}')
            old = getattr(real, par)
            setattr(real, par, old * factor + shift)
            try:
                out = module_checks(name, f'{seed}/{par}', max(3, npts // 3))
            finally:
                setattr(real, par, old)
            return f'{name}[{par}={old * factor + shift:.4g}]', out, None
        return name, module_checks(name, seed, npts), None
    except (Undecided, NeedResample) as e:
        return name, {}, f'undecided: {e}'
    except Exception:
        import traceback
        return name, {}, 'crash: ' + traceback.format_exc()[-800:]


def layout_cases():
    """the jets evaluate the modules at single points; on arrays the modules must not depend on how the coordinate arrays are laid
    out in memory: C-ordered vs Fortran-ordered (transposed simulation data) vs non-contiguous views vs integer-valued coordinates
    in integer arrays"""
    import inspect
    import warnings
    bad, n = [], 0
    with warnings.catch_warnings():
        warnings.simplefilter('ignore')
        for name in MODULES + ['ICPertFLRW']:
            real = importlib.import_module(f'aurel.solutions.{name}')
            (t0, t1), (x0, x1) = DOMAIN.get(name, ((1.0, 2.0), (-1.0, 1.0)))
            t = 0.5 * (t0 + t1)
            ax = [np.linspace(x0 + 0.1 * (x1 - x0) * (k + 1), x1 - 0.07 * (x1 - x0) * (k + 1), 5 + k) for k in range(3)]
            X = np.meshgrid(*ax, indexing='ij')
            lay = {'C': [np.ascontiguousarray(a) for a in X], 'F': [np.asfortranarray(a) for a in X],
                   'T': [np.ascontiguousarray(a.T).T for a in X], 'S': [np.repeat(a, 2, axis=-1)[..., ::2] for a in X]}
            for fn, f in list(vars(real).items()):
                if not inspect.isfunction(f) or f.__module__ != real.__name__ or fn.startswith('_'):
                    continue
                try:
                    pars = list(inspect.signature(f).parameters)
                except (TypeError, ValueError):
                    continue
                if not ({'x', 'y', 'z'} & set(pars)) or any(p_ not in ('t', 'x', 'y', 'z') and inspect.signature(f).parameters[p_].default is inspect._empty for p_ in pars):
                    continue
                out = {}
                for how, (x, y, z) in lay.items():
                    kw = dict(t=t, x=x, y=y, z=z)
                    try:
                        out[how] = np.asarray(f(**{p_: kw[p_] for p_ in pars if p_ in kw}), dtype=complex)
                    except Exception as e:
                        out[how] = RuntimeError(f'{type(e).__name__}: {str(e)[:60]}')
                if isinstance(out['C'], RuntimeError):
                    continue                      # not callable on arrays in this way at all (analytical-only helpers)
                for how, what in (('F', 'Fortran-ordered'), ('T', 'transposed'), ('S', 'non-contiguous')):
                    n += 1
                    if isinstance(out[how], RuntimeError):
                        bad.append(f'{name}.{fn}: raises {out[how]} for {what} coordinate arrays, returns for C-ordered ones')
                    elif out[how].shape != out['C'].shape or not np.allclose(out[how], out['C'], rtol=1e-10, atol=1e-12, equal_nan=True):
                        bad.append(f'{name}.{fn}: {what} coordinate arrays give a different value than the same points C-ordered '
                                   f'(max |difference| {np.nanmax(np.abs(out[how] - out["C"])) if out[how].shape == out["C"].shape else "shape"})')
    return bad, n


def layout_obligation(R):
    t0 = time.time()
    bad, n = layout_cases()
    R.bounded.append(dict(function='aurel.solutions.* on arrays', bound='one 5x6x7 block of points per module; C / Fortran / transposed / strided coordinate arrays'))
    R.ob('solutions.*:the value does not depend on the memory layout of the coordinate arrays', 'gammadown3', 'refuted' if bad else ('bounded-ok' if n else 'undecided'),
         'bounded-native', time.time() - t0, '; '.join(bad[:4]) or f'{n} comparisons', bad[:6] or None, bounded='one block of points, 3 layouts',
         replay=lambda o: (lambda b: (bool(b[0]), '; '.join(b[0][:4]) or 'no difference'))(layout_cases()))


def run(R):
    from engine.canary import run_canaries
    run_canaries(R, ('symx',))
    import multiprocessing as mp
    layout_obligation(R)
    R.assume('A1', 'A4', 'A5')
    R.trust('float64 evaluation of sin, sinh, exp, log, fractional powers, scipy.special.hyp2f1 and of sympy expressions at 40 digits')
    npts = 8 if R.tier == 'quick' else 32
    R.bounded.append(dict(function='aurel.solutions.*', bound=f'{npts} Latin-hypercube points of the domain per module (every coordinate range cut into {npts} slices, each visited); residual tolerance {TOL}'))
    R.notes.append('free parameters varied (two other values each): ' + ', '.join(f'{m}.{p_}' for m, ps in FREE_PARAMS.items() for p_ in ps))
    R.notes.append('ICPertFLRW is a first-order perturbative initial condition (growth-rate fit f = Omega_m^(6/11)): not an exact solution, so (c) does not apply; (b) K = -1/2 d_t gamma holds exactly on the EdS background and is checked there for a generic perturbation Rc')
    for n in MODULES:
        mod = importlib.import_module(f'aurel.solutions.{n}')
        for fn in ('gammadown3', 'gdown4', 'alpha', 'betaup3', 'Kdown3', 'Tdown4', 'rho', 'press', 'Kretschmann', 'st_RicciS', 'a', 'Hprop'):
            if hasattr(mod, fn):
                R.under_contract(getattr(mod, fn))
    t0 = time.time()
    with mp.Pool(len(MODULES) + 1) as pool:
        jobs = [(n, R.seed, npts) for n in MODULES + ['ICPertFLRW']]
        for n, pars in FREE_PARAMS.items():
            for par in pars:
                if hasattr(importlib.import_module(f'aurel.solutions.{n}'), par):
                    jobs += [(n, R.seed, npts, par, 1.37, 0.11), (n, R.seed, npts, par, 0.43, 0.07)]
        res = pool.map(_one, jobs)
    secs = time.time() - t0
    for name, out, err in res:
        if err:
            R.ob(f'solutions.{name}:evaluation', name, 'undecided', 'float64-jets', secs / len(MODULES), err)
            continue
        for label, (worst, detail) in out.items():
            ok = worst <= TOL
            R.numeric.append(dict(obligation=f'{name} {label}', residual=worst))
            R.ob(f'solutions.{name}:{label}', name, 'numeric-ok' if ok else 'refuted', 'float64-jets', secs / (len(MODULES) * max(len(out), 1)),
                 f'worst relative residual {worst:.2e}' + ('' if ok else '; ' + detail), None if ok else [label],
                 bounded=f'numeric: {npts} points', replay=(lambda o, name=name, label=label: native_replay(name, label, o)))
    R.extra['explanation'] = ('numeric evidence: the real solution modules evaluated on float64 Taylor jets (exact differentiation, binary64 values) at '
                              f'{npts} random points per module; obligations (a)-(d) with residual tolerance {TOL}; not counted as proved')


def constraint_replay(name, real, at):
    """the real solution module feeding the real AurelCore (8th-order finite differences on a small grid around the
    failing point): Hamiltonian and momentum constraints with the module's own Tdown4 -- pure library code"""
    import aurel
    N, h = 13, 0.02
    par = dict(Nx=N, Ny=N, Nz=N, xmin=at['x'] - h * (N // 2), ymin=at['y'] - h * (N // 2), zmin=at['z'] - h * (N // 2), dx=h, dy=h, dz=h)
    fd = aurel.FiniteDifference(par, boundary='no boundary', fd_order=8, verbose=False)
    rel = aurel.AurelCore(fd, verbose=False)
    t = at['t']
    for key in ('gammadown3', 'Kdown3', 'alpha', 'betaup3', 'Tdown4'):
        if hasattr(real, key):
            rel.data[key] = np.asarray(getattr(real, key)(t, fd.x, fd.y, fd.z), dtype=float) * np.ones(fd.x.shape)
    rel.freeze_data()
    c = N // 2
    kT = float(getattr(real, 'kappa', 8 * math.pi)) * np.max(np.abs(rel.data['Tdown4'][..., c, c, c]))
    ham = abs(float(rel['Hamiltonian'][c, c, c]))
    mom = float(np.max(np.abs(rel['Momentumup3'][:, c, c, c])))
    scale = max(kT, float(np.max(np.abs(rel['s_RicciS'][c, c, c]))), 1e-300)
    return ham / scale, mom / scale


def native_replay(name, label, o=None):
    """float64 finite-difference replay on the real module (no jets): centred differences in t with step 1e-4 relative"""
    import re as _re0
    m0 = _re0.match(r'(\w+)\[(\w+)=([^\]]+)\]$', name)
    if m0:
        # an obligation with one of the module's free parameters moved off its default: the replay sets the same value
        name, par, val = m0.group(1), m0.group(2), float(m0.group(3))
        real = importlib.import_module(f'aurel.solutions.{name}')
        oldv = getattr(real, par)
        setattr(real, par, val)
        try:
            bad, txt = native_replay(name, label, o)
        finally:
            setattr(real, par, oldv)
        return bad, f'with aurel.solutions.{name}.{par} = {val} (default {oldv}): ' + txt
    real = importlib.import_module(f'aurel.solutions.{name}')
    if label.startswith(('(c) ', '(d) ')) and o is not None and hasattr(real, 'Tdown4'):
        import ast as _ast
        import re as _re
        m = _re.search(r"at (\{[^}]*\})", getattr(o, 'detail', '') or '')
        if m:
            try:
                at = _ast.literal_eval(m.group(1))
                hres, mres = constraint_replay(name, real, at)
                txt = (f'real aurel.solutions.{name} feeding the real AurelCore (fd_order 8, 13^3 grid, h = 0.02) at {at}: '
                       f'|Hamiltonian| / scale = {hres:.2e}, max |Momentum^i| / scale = {mres:.2e} with the module\'s own Tdown4 (truncation level ~1e-7)')
                return (hres > 1e-4 or mres > 1e-4), txt
            except Exception as e:
                return False, f'constraint replay raised {type(e).__name__}: {e}'
    (t0, t1), (x0, x1) = DOMAIN[name]
    t = 0.5 * (t0 + t1)
    xs = np.full((3, 3, 3), 0.4 * (x0 + x1) / 2 + 0.3 * (x1 - x0) / 2)
    ys, zs = xs + 0.1, xs - 0.2
    lines = [f'real module aurel.solutions.{name} at t={t}, (x,y,z)=({xs[0,0,0]:.3f},{ys[0,0,0]:.3f},{zs[0,0,0]:.3f})']
    bad = False
    try:
        if label.startswith('(b)'):
            h = 1e-5 * max(1.0, abs(t))
            dg = (real.gammadown3(t + h, xs, ys, zs) - real.gammadown3(t - h, xs, ys, zs)) / (2 * h)
            al = real.alpha(t, xs, ys, zs) if hasattr(real, 'alpha') else 1.0
            K = real.Kdown3(t, xs, ys, zs)
            ref = -dg / (2 * al)
            d = np.max(np.abs(K - ref)[:, :, 1, 1, 1]) / (1e-300 + np.max(np.abs(ref)))
            lines.append(f'  max |Kdown3 + d_t gamma/(2 alpha)| / scale (zero shift) = {d:.3e}')
            bad = d > 1e-5
        else:
            lines.append('  no finite-difference replay for this obligation; see the jet residual in verifier_output')
    except Exception as e:
        lines.append(f'  replay raised {type(e).__name__}: {e}')
    return bad, '\n'.join(lines)
