"""C01 lazy cache is transparent.

O1  per function x scenario x cache-state path: real body == Spec_k(In) with every callee
    answered by its contract (CacheInv: every cached entry equals its spec) -- all keys.
O2  __getitem__ / cleanup_cache preserve CacheInv (E2, props/cachevc.py).
O3  frame (shared with C02).  O4 defaults: the 'noshift'/'shift_y'/'default' scenarios.
Lemma (induction over histories): O1-O4 => every returned value equals Spec_k(In).
A bounded native exploration of real histories under aggressive eviction is kept as a
cross-check of the lemma (labelled bounded).
"""
import random
import time
import numpy as np

from engine.e1run import Worlds, function_obligations, all_keys, SCENARIOS
from engine.helpers import helper_obligations
from engine.chain import make_rel
from engine.jets import Undecided, NeedResample
from engine.universe import SpecUnavailable
from engine import contracts as CT

LEVEL = 'proof'
SCENS_QUICK = ['onshell', 'onshell_vac', 'onshell_comp', 'fluid', 'fluid_comp', 'fluid_rho0zero', 'freeT', 'shift_y', 'shift_z', 'noshift', 'noshift_dtshift', 'default']
SCENS_THOROUGH = ['onshell', 'onshell_vac', 'onshell_comp', 'onshell_fluidtetrad', 'fluid', 'fluid_comp', 'fluid_rho0zero', 'fluid_atrest', 'freeT', 'shift_x', 'shift_y',
                  'shift_z', 'noshift', 'noshift_dtshift', 'default']
NO_CONTRACT = {
    'Psi4_lm': 'grid-extent dependent (interpolation onto spheres): decided in C20, not pointwise',
    'null_ray_exp_out': 'depends on the grid coordinates through cartesian_to_spherical (sign/arccos): the helper null_ray_expansion is under contract instead',
    'null_ray_exp_in': 'as null_ray_exp_out',
    's_RicciS_u': 'Gauss relation for the fluid frame, valid for irrotational flow only; no textbook spec independent of the code is claimed',
}


def history_obligations(R, W, scen, nhist, length, seed):
    """bounded stand-in: real request histories with eviction after every calculation."""
    F, U, env = W.get(scen, 0)
    keys = [k for k in all_keys() if k not in NO_CONTRACT and k not in U.inputs]
    rng = random.Random(f'hist/{seed}')
    ok_keys = []
    for k in keys:
        try:
            U[k]
            ok_keys.append(k)
        except (SpecUnavailable, Undecided, NeedResample):
            pass
    t0 = time.time()
    bad = []
    nreq = 0
    # quantities built on the tetrad: the real Gram-Schmidt takes square roots, whose sign in F_p need not be the one the
    # textbook spec picked -- for them "equals fresh" is checked literally, against the same key on a fresh instance
    import inspect
    import re
    import aurel.core as C
    reads = {}
    for k in list(C.descriptions) + [n for n in vars(C.AurelCore) if callable(getattr(C.AurelCore, n)) and not n.startswith('__')]:
        f = getattr(C.AurelCore, k, None)
        if f is None or not hasattr(f, '__code__'):
            continue
        src = inspect.getsource(f)
        reads[k] = set(re.findall(r'self\[["\']([A-Za-z0-9_]+)["\']\]', src)) | set(re.findall(r'self\.([A-Za-z0-9_]+)\(', src))
    tetrad_dep = {'tetrad_base', 'null_vector_base'}
    changed = True
    while changed:
        changed = False
        for k, rs in reads.items():
            if k not in tetrad_dep and rs & tetrad_dep:
                tetrad_dep.add(k)
                changed = True
    fresh_cache = {}

    def reference(k):
        if k not in tetrad_dep:
            return U[k]
        if k not in fresh_cache:
            fresh_cache[k] = make_rel(env, U)[k]
        return fresh_cache[k]
    for h in range(nhist):
        every = rng.choice([1, 2, 3])
        rel = make_rel(env, U, clear_cache_every_nbr_calc=every, memory_threshold_inGB=rng.choice([1e-9, 4]))
        hist = [rng.choice(ok_keys) for _ in range(length)]
        for k in hist:
            try:
                v = rel[k]
                nreq += 1
                ref = reference(k)
                ref = CT.untens_tree(ref) if k in tetrad_dep else ref
                if CT.compare(v, ref):
                    bad.append(f'{k} after {hist[:hist.index(k)][-4:]} (every={every})')
                    break
            except (NeedResample, Undecided, SpecUnavailable):
                break
            except ValueError as e:
                if 'read-only' in str(e):
                    bad.append(f'in-place write during {k}')
                break
        missing = [k for k in U.inputs if k not in rel.data]
        if missing:
            bad.append(f'frozen inputs evicted: {missing}')
    R.bounded.append(dict(function='AurelCore.__getitem__ + cleanup_cache (real histories)',
                          bound=f'{nhist} random histories of length {length}, clean-up period in {{1,2,3}}, threshold in {{1e-9, 4}} GB',
                          requests=nreq))
    R.ob(f'history.real-chain[{scen}]:value-equals-fresh', '__getitem__', 'refuted' if bad else 'bounded-ok', 'bounded-native',
         time.time() - t0, '; '.join(bad[:5]), bad[:10] or None,
         bounded=f'{nhist} histories x {length} requests')


def callgraph_obligation(R):
    """Well-founded recursion: in EVERY cache state (any subset of the guard keys cached, everything else uncached --
    all reachable through evictions), the 'needs-to-compute' call graph of the quantity methods is acyclic.
    Reads are taken from the AST of the real methods, path-sensitively in the cache guards (other tests: both
    branches), helper methods inlined.  This is the termination premise of the induction over histories."""
    import ast, inspect, itertools, textwrap
    import aurel.core as C
    from engine.e1 import discover_guards
    t0 = time.time()
    cls = C.AurelCore
    trees = {}
    for n, f in cls.__dict__.items():
        if callable(f) and not n.startswith('__') and hasattr(f, '__code__'):
            trees[n] = ast.parse(textwrap.dedent(inspect.getsource(f))).body[0]
    keys = [k for k in C.descriptions if k in trees]
    gall = set()
    for n in trees:
        try:
            gall |= set(discover_guards(getattr(cls, n))['keys'])
        except Exception:
            pass
    gkeys = sorted(g for g in gall if g in trees and g in C.descriptions)

    class Data(set):
        def keys(self):
            return self

    class Fake:
        def __init__(self, cached):
            self.data = Data(cached)

    def reads(name, cached, depth=0, seen=frozenset()):
        out = set()
        if name in seen or depth > 6:
            return out
        seen = seen | {name}

        def visit_expr(node):
            for sub in ast.walk(node):
                if isinstance(sub, ast.Subscript) and isinstance(sub.value, ast.Name) and sub.value.id == 'self' \
                        and isinstance(sub.slice, ast.Constant) and isinstance(sub.slice.value, str):
                    out.add(sub.slice.value)
                if isinstance(sub, ast.Call) and isinstance(sub.func, ast.Attribute) and isinstance(sub.func.value, ast.Name) \
                        and sub.func.value.id == 'self' and sub.func.attr in trees and sub.func.attr not in C.descriptions:
                    out.update(reads(sub.func.attr, cached, depth + 1, seen))

        def visit(stmts):
            for st in stmts:
                if isinstance(st, ast.If):
                    try:
                        val = eval(compile(ast.Expression(body=st.test), '<guard>', 'eval'), {'self': Fake(cached)})
                        decided = isinstance(val, bool)
                    except Exception:
                        decided = False
                    visit_expr(st.test)
                    if decided:
                        visit(st.body if val else st.orelse)
                    else:
                        visit(st.body)
                        visit(st.orelse)
                elif isinstance(st, ast.For):
                    visit_expr(st.iter)
                    visit(st.body)
                elif isinstance(st, ast.While):
                    visit_expr(st.test)
                    visit(st.body)
                elif isinstance(st, ast.With):
                    visit(st.body)
                elif isinstance(st, ast.Try):
                    visit(st.body)
                    for h in st.handlers:
                        visit(h.body)
                else:
                    visit_expr(st)
        visit(trees[name].body)
        return out
    # which guard keys influence which method (transitively through helpers): by comparing reads over single flips is
    # not sound, so a method's reads are memoised on the FULL guard assignment restricted to the guard keys that
    # syntactically occur in it or in any helper it calls
    def occurring(name, seen=frozenset()):
        if name in seen:
            return set()
        o = set()
        for sub in ast.walk(trees[name]):
            if isinstance(sub, ast.Constant) and sub.value in gkeys:
                o.add(sub.value)
            if isinstance(sub, ast.Call) and isinstance(sub.func, ast.Attribute) and isinstance(sub.func.value, ast.Name) \
                    and sub.func.value.id == 'self' and sub.func.attr in trees and sub.func.attr not in C.descriptions:
                o |= occurring(sub.func.attr, seen | {name})
        return o
    occ = {k: frozenset(occurring(k)) for k in keys}
    memo = {}
    uniq = {}
    nstates = 0
    for bits in itertools.product([False, True], repeat=len(gkeys)):
        cached = frozenset(g for g, b in zip(gkeys, bits) if b)
        nstates += 1
        graph = {}
        for k in keys:
            if k in cached:
                continue
            sig = (k, cached & occ[k])
            if sig not in memo:
                memo[sig] = frozenset(r for r in reads(k, cached & occ[k]) if r in trees and r in C.descriptions)
            graph[k] = [r for r in memo[sig] if r not in cached]
        colour = {}
        for root in graph:
            if root in colour:
                continue
            stack = [(root, iter(graph[root]))]
            colour[root] = 1
            path = [root]
            while stack:
                node, it = stack[-1]
                nxt = next(it, None)
                if nxt is None:
                    colour[node] = 2
                    stack.pop()
                    path.pop()
                    continue
                if colour.get(nxt) == 1:
                    cyc = path[path.index(nxt):] + [nxt]
                    uniq.setdefault(' -> '.join(cyc), sorted(cached))
                    continue
                if nxt not in colour and nxt in graph:
                    colour[nxt] = 1
                    stack.append((nxt, iter(graph[nxt])))
                    path.append(nxt)
        if len(uniq) > 8:
            break
    detail = '; '.join(f'cycle {c} when exactly these guard keys are cached: {st}' for c, st in list(uniq.items())[:4])

    def replay(o):
        import aurel
        if not uniq:
            return False, 'no cycle'
        for cyc, cached in uniq.items():
            names = cyc.split(' -> ')
            fd = aurel.FiniteDifference(dict(Nx=6, Ny=6, Nz=6, xmin=0., ymin=0., zmin=0., dx=1., dy=1., dz=1.), verbose=False)
            rel = aurel.AurelCore(fd, verbose=False)
            try:
                for k in cached:
                    rel[k]
                for k in list(rel.data):
                    if k not in cached:
                        del rel.data[k]
                        rel.last_accessed.pop(k, None)
                rel[names[0]]
            except RecursionError:
                return True, (f'real AurelCore in which exactly {cached} are cached (everything else evicted, as cleanup_cache may do): '
                              f'rel[{names[0]!r}] raises RecursionError ({cyc})')
            except Exception as e:
                continue
        return False, 'the cycles found in the graph did not recurse natively'
    R.ob('core.call-graph:well-founded in every reachable cache state (no recursion cycle among uncached keys)', '__getitem__',
         'refuted' if uniq else 'discharged', 'ast-graph', time.time() - t0,
         detail or f'{nstates} cache states over the {len(gkeys)} guard keys {gkeys}: call graph of {len(keys)} keys acyclic', sorted(uniq) or None, replay=replay)


def run(R):
    from engine.canary import run_canaries
    run_canaries(R, ('e1', 'symx'))
    from props import cachevc
    W = Worlds(R.seed)
    npts = 1 if R.tier == 'quick' else 2
    scens = SCENS_QUICK if R.tier == 'quick' else SCENS_THOROUGH
    R.assume('A1', 'A2', 'A3', 'A5', 'A6', 'A7', 'A8')
    R.trust('requires Frozen(In): inputs are frozen (freeze_data / load_data / over_time), as README documents; without it an input can be evicted and its default silently used -- the documented protocol, not a defect')
    R.trust('requires OnShell(In) for keys offering two derivations that agree only on solutions (st_Ricci_down4 from T vs Riemann, vacuum shortcuts): T = (G + Lambda g)/kappa, vacuum flag consistent')
    for k, why in NO_CONTRACT.items():
        R.notes.append(f'no pointwise contract for {k}: {why}')
    for k in all_keys():
        if k in NO_CONTRACT:
            continue
        n = function_obligations(R, W, k, scens, npoints=npts)
        if n == 0:
            R.ob(f'core.{k}:has-contract', k, 'undecided', 'pit-exact', 0.0, 'no scenario provides a spec for this key')
    # helpers with a cache guard (s_to_st: "is there any shift?"): every single-component shift, no shift, full shift, and every
    # cache state of the composite betaup3 -- a guard that forgets one of the ways the shift can be given shows up here
    for s in ['shift_x', 'shift_y', 'shift_z', 'noshift', 'onshell']:
        for present in [(), ('betaup3',)]:
            helper_obligations(R, W, s, only={'s_to_st'}, npoints=npts, present=present,
                               tag='|cache:' + ('+'.join(present) or '-'))
    # ... and the quantities that embed spatial tensors through that helper, on the real call chain
    for s in ['shift_x', 'shift_z']:
        for k in ('betaup3', 'betadown3', 'betamag', 'gdown4', 'eweyl_u_down4', 'bweyl_u_down4'):
            if k in all_keys():
                function_obligations(R, W, k, [s], npoints=1)
    cachevc.getitem_obligations(R)
    callgraph_obligation(R)
    history_obligations(R, W, 'onshell', 4 if R.tier == 'quick' else 40, 25, R.seed)
    history_obligations(R, W, 'fluid', 4 if R.tier == 'quick' else 40, 25, R.seed)
