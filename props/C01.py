"""C01 lazy cache is transparent.

O1  per function x scenario x cache-state path: real body == Spec_k(In) with every callee
    answered by its contract (CacheInv: every cached entry equals its spec) -- all keys.
O2  __getitem__ / cleanup_cache preserve CacheInv (E2, props/cachevc.py).
O3  frame (shared with C02).  O4 defaults: the 'noshift'/'shift_y'/'default' scenarios.
Lemma (induction over histories): O1-O4 => every returned value equals Spec_k(In).
A bounded native exploration of real histories under aggressive eviction is kept as a
cross-check of the lemma (labelled bounded).
"""
import random
import time
import numpy as np

from engine.e1run import Worlds, function_obligations, all_keys, SCENARIOS
from engine.helpers import helper_obligations
from engine.chain import make_rel
from engine.jets import Undecided, NeedResample
from engine.universe import SpecUnavailable
from engine import contracts as CT

LEVEL = 'proof'
SCENS_QUICK = ['onshell', 'onshell_vac', 'fluid', 'fluid_rho0zero', 'freeT', 'shift_y', 'noshift', 'default']
SCENS_THOROUGH = ['onshell', 'onshell_vac', 'onshell_comp', 'onshell_fluidtetrad', 'fluid', 'fluid_comp', 'fluid_rho0zero', 'fluid_atrest', 'freeT', 'shift_y',
                  'noshift', 'default']
NO_CONTRACT = {
    'Psi4_lm': 'grid-extent dependent (interpolation onto spheres): decided in C20, not pointwise',
    'null_ray_exp_out': 'depends on the grid coordinates through cartesian_to_spherical (sign/arccos): the helper null_ray_expansion is under contract instead',
    'null_ray_exp_in': 'as null_ray_exp_out',
    's_RicciS_u': 'Gauss relation for the fluid frame, valid for irrotational flow only; no textbook spec independent of the code is claimed',
}


def history_obligations(R, W, scen, nhist, length, seed):
    """bounded stand-in: real request histories with eviction after every calculation."""
    F, U, env = W.get(scen, 0)
    keys = [k for k in all_keys() if k not in NO_CONTRACT and k not in U.inputs]
    rng = random.Random(f'hist/{seed}')
    ok_keys = []
    for k in keys:
        try:
            U[k]
            ok_keys.append(k)
        except (SpecUnavailable, Undecided, NeedResample):
            pass
    t0 = time.time()
    bad = []
    nreq = 0
    for h in range(nhist):
        every = rng.choice([1, 2, 3])
        rel = make_rel(env, U, clear_cache_every_nbr_calc=every, memory_threshold_inGB=rng.choice([1e-9, 4]))
        hist = [rng.choice(ok_keys) for _ in range(length)]
        for k in hist:
            try:
                v = rel[k]
                nreq += 1
                if CT.compare(v, U[k]):
                    bad.append(f'{k} after {hist[:hist.index(k)][-4:]} (every={every})')
                    break
            except (NeedResample, Undecided, SpecUnavailable):
                break
            except ValueError as e:
                if 'read-only' in str(e):
                    bad.append(f'in-place write during {k}')
                break
        missing = [k for k in U.inputs if k not in rel.data]
        if missing:
            bad.append(f'frozen inputs evicted: {missing}')
    R.bounded.append(dict(function='AurelCore.__getitem__ + cleanup_cache (real histories)',
                          bound=f'{nhist} random histories of length {length}, clean-up period in {{1,2,3}}, threshold in {{1e-9, 4}} GB',
                          requests=nreq))
    R.ob(f'history.real-chain[{scen}]:value-equals-fresh', '__getitem__', 'refuted' if bad else 'bounded-ok', 'bounded-native',
         time.time() - t0, '; '.join(bad[:5]), bad[:10] or None,
         bounded=f'{nhist} histories x {length} requests')


def run(R):
    from props import cachevc
    W = Worlds(R.seed)
    npts = 1 if R.tier == 'quick' else 2
    scens = SCENS_QUICK if R.tier == 'quick' else SCENS_THOROUGH
    R.assume('A1', 'A2', 'A3', 'A5', 'A6', 'A7', 'A8')
    R.trust('requires Frozen(In): inputs are frozen (freeze_data / load_data / over_time), as README documents; without it an input can be evicted and its default silently used -- the documented protocol, not a defect')
    R.trust('requires OnShell(In) for keys offering two derivations that agree only on solutions (st_Ricci_down4 from T vs Riemann, vacuum shortcuts): T = (G + Lambda g)/kappa, vacuum flag consistent')
    for k, why in NO_CONTRACT.items():
        R.notes.append(f'no pointwise contract for {k}: {why}')
    for k in all_keys():
        if k in NO_CONTRACT:
            continue
        n = function_obligations(R, W, k, scens, npoints=npts)
        if n == 0:
            R.ob(f'core.{k}:has-contract', k, 'undecided', 'pit-exact', 0.0, 'no scenario provides a spec for this key')
    for s in ['shift_y', 'noshift', 'onshell']:
        for present in [(), ('betaup3',), ('betax',), ('betaup3', 'betax')]:
            helper_obligations(R, W, s, only={'s_to_st'}, npoints=npts, present=present,
                               tag='|cache:' + ('+'.join(present) or '-'))
    cachevc.getitem_obligations(R)
    history_obligations(R, W, 'onshell', 4 if R.tier == 'quick' else 40, 25, R.seed)
    history_obligations(R, W, 'fluid', 4 if R.tier == 'quick' else 40, 25, R.seed)
