"""C12 the per-iteration read cache never changes what read_data returns.

The real read_ET_data (split_per_it branch), read_aurel_data and save_data run on the file-system model;
read_ET_variables is its contract: Truth(var, it, restart, rl) tokens.  Ghost state: the cache directory of every
restart.  Invariant CacheOK: every dataset '<var> rl=<k>' in <restart>/all_iterations/it_<n>.hdf5 is
Truth(var, n, restart, k).  Obligations, checked after EVERY call of a history:
  (a) each returned entry == Truth(var, it, latest restart containing it, rl)  (= what an uncached read returns);
  (b) CacheOK;  (c) rows = sorted requested iterations that exist, all columns of equal length;
  (d) a second identical call reads nothing from the ET files (the cache is used).
Histories: all sequences of <= 3 calls (quick: <= 2 + selected triples) over a pool of requests mixing iteration
subsets, tensor vs component names, two levels, cached / uncached calls, grouped and ungrouped layouts, two
restarts with an overlapping iteration.  Array contents are opaque (all values); histories bounded.
"""
import itertools
import time
import numpy as np

from engine import symx as SX
from engine.symx import explore
from engine.fsmodel import FS, Tok
from engine import fsmodel as FM
from props import etmodel

LEVEL = 'other'
CAT = {0: {'its available': [0, 4], 'var available': ['alpha', 'betaup3', 'gammadown3'], 'checkpoints': []},
       1: {'its available': [4, 8], 'var available': ['alpha', 'betaup3', 'gammadown3'], 'checkpoints': []},
       'overall': {}}
POOL = [dict(it=[0], vars=['betax'], rl=0), dict(it=[0, 2], vars=['betaup3'], rl=0), dict(it=[2, 4, 6], vars=['betaup3', 'alpha'], rl=0),
        dict(it=[6, 0], vars=['alpha'], rl=0), dict(it=[4], vars=['betay'], rl=1), dict(it=[2, 4], vars=['betaup3'], rl=1),
        dict(it=[0, 2], vars=['betax'], rl=0, split_per_it=False), dict(it=[8, 2], vars=['gammadown3'], rl=0), dict(it=[2], vars=['gxx', 'alpha'], rl=0),
        dict(it=[4], vars=['betax'], rl=0), dict(it=[0, 2, 4, 6, 8], vars=['gammadown3'], rl=0), dict(it=[6], vars=['gxx'], rl=0),
        dict(it=[6], vars=['betay'], rl=0), dict(it=[8, 4, 6], vars=['betaup3'], rl=0)]


# a second catalogue with long restarts: blocks of 4-8 iterations, two cached iterations in the interior of a block
CAT_B = {0: {'its available': [0, 10], 'var available': ['alpha', 'betaup3', 'gammadown3'], 'checkpoints': []},
         1: {'its available': [10, 30], 'var available': ['alpha', 'betaup3', 'gammadown3'], 'checkpoints': []},
         'overall': {}}
POOL_B = [dict(it=[16], vars=['betay'], rl=0), dict(it=[20, 14], vars=['betax'], rl=0), dict(it=[12, 14, 16, 18, 20, 22, 24], vars=['betaup3'], rl=0),
          dict(it=[8, 10, 12, 14, 16], vars=['betaup3', 'alpha'], rl=0), dict(it=[24, 22, 20, 18, 16, 14, 12, 10], vars=['betaup3'], rl=0),
          dict(it=[18], vars=['gxx'], rl=0), dict(it=[10, 12, 14, 16, 18, 20], vars=['gammadown3'], rl=0)]
_ACTIVE = {'cat': CAT}


def latest(it):
    best = None
    CAT = _ACTIVE['cat']
    for r in (0, 1):
        lo, hi = CAT[r]['its available']
        if lo <= it <= hi:
            best = r
    return best


def scalars(vs):
    out = []
    for v in vs:
        out += etmodel.SCALARS.get(v, [v])
    return list(dict.fromkeys(out))


def run_history(args):
    hist, grouped, which = (tuple(args) + ('A',))[:3]
    _ACTIVE['cat'] = CAT if which == 'A' else CAT_B
    CAT_ = _ACTIVE['cat']
    fs = FS()
    truth = etmodel.Truth()
    log = []
    fns, g = etmodel.build(fs, CAT_, grouped, truth, log)
    p = {'simulation': 'ET', 'simpath': '/sims/', 'simname': 'run'}
    fails = {}

    def note(label, ok, detail):
        if not ok and label not in fails:
            fails[label] = detail
    checks = 0
    ctx = SX.Ctx()
    SX.Ctx.cur = ctx
    try:
        for ci, req in enumerate(hist):
            kw = dict(req)
            n_before = len(log)
            try:
                d = fns['read_data'](p, verbose=False, **{k: (list(v) if isinstance(v, list) else v) for k, v in kw.items()})
            except Exception as e:
                import traceback
                note('reads do not raise', False, f'history {hist[:ci + 1]} grouped={grouped}: {type(e).__name__}: {e} | {traceback.format_exc()[-400:]}')
                break
            rl = req.get('rl', 0)
            its = sorted(set(req['it']))
            rows = [i for i in its if latest(i) is not None]
            checks += 1
            note('(c) rows are the sorted requested iterations that exist; columns have equal length',
                 [int(i) for i in d['it']] == rows and all(len(v) == len(rows) for v in d.values()),
                 f'history {hist[:ci + 1]} grouped={grouped}: it column {list(d["it"])}, lengths {dict((k, len(v)) for k, v in d.items())}')
            if [int(i) for i in d['it']] == rows:
                for av in scalars(req['vars']) + ['t']:
                    if av not in d:
                        note('(a) every requested component is returned', False, f'history {hist[:ci + 1]} grouped={grouped}: {av} missing from {list(d)}')
                        continue
                    for j, it in enumerate(rows):
                        got = d[av][j]
                        exp = truth.get(av, it, latest(it), 0 if av == 't' else rl)
                        checks += 1
                        note('(a) each entry equals what an uncached read returns (Truth of var, it, latest restart, level)', got is exp,
                             f'history {hist[:ci + 1]} grouped={grouped}: {av} at it={it}: got {got!r}, expected {exp!r}')
            # (b) CacheOK over the whole model file system
            for name, dsets in fs.files:
                import re
                m = re.match(r'/sims/run/output-(\d+)/run/all_iterations/it_(\d+)\.hdf5$', name)
                if not m:
                    note('(b) cache files live in <restart>/all_iterations/it_<n>.hdf5', False, f'unexpected file {name}')
                    continue
                r, it = int(m.group(1)), int(m.group(2))
                for dn, val in dsets.items():
                    var, lvl = dn.rsplit(' rl=', 1)
                    checks += 1
                    if var == 'it':
                        ok = (val == it) if not isinstance(val, Tok) else False
                    else:
                        exp = truth.get(var, it, r, 0 if var == 't' else int(lvl))
                        ok = val is exp
                    note('(b) every dataset written to a cache file holds the data of the variable, iteration, level and restart it is filed under', ok,
                         f'history {hist[:ci + 1]} grouped={grouped}: file {name} dataset {dn!r} holds {val!r}')
            # (d) repeat the same call: nothing is read from ET again
            if req.get('split_per_it', True):
                n0 = len(log)
                try:
                    d2 = fns['read_data'](p, verbose=False, **{k: (list(v) if isinstance(v, list) else v) for k, v in kw.items()})
                    same = set(d2) == set(d) and all(len(d2[k]) == len(d[k]) and all((a is b) or (not isinstance(a, Tok) and a == b) for a, b in zip(d2[k], d[k])) for k in d)
                    note('(d) an identical second call returns the same values', same, f'history {hist[:ci + 1]} grouped={grouped}')
                    note('(d) ... and takes them from the cache (no ET read)', len(log) == n0, f'history {hist[:ci + 1]} grouped={grouped}: ET reads {log[n0:]}')
                    checks += 2
                except Exception as e:
                    note('reads do not raise', False, f'repeat of {req}: {type(e).__name__}: {e}')
    finally:
        SX.Ctx.cur = None
    return fails, checks


def histories(tier):
    idx = range(len(POOL))
    hs = [[POOL[i]] for i in idx] + [[POOL[i], POOL[j]] for i, j in itertools.product(idx, repeat=2)]
    triples = [(0, 1, 2), (0, 2, 1), (4, 5, 1), (6, 0, 1), (8, 7, 2), (3, 0, 2), (1, 4, 5), (2, 8, 7)]
    if tier != 'quick':
        triples = list(itertools.product(idx, repeat=3))[::5]
    hs += [[POOL[a], POOL[b], POOL[c]] for a, b, c in triples]
    return hs


def native_replay(o=None):
    """the design counter-history on a generated directory, through the real reader"""
    import shutil, tempfile
    import aurel
    from engine import etgen
    bad = []
    seqs = [[dict(it=[0], vars=['betax']), dict(it=[0, 2], vars=['betaup3']), dict(it=[2, 4, 6], vars=['betaup3', 'alpha']), dict(it=[0, 2, 4], vars=['betaup3'])],
            # one component cached at an INTERIOR iteration of a later, wider request (then read again from the cache)
            [dict(it=[6], vars=['betay']), dict(it=[8, 4, 6], vars=['betaup3']), dict(it=[4, 6, 8], vars=['betaup3']), dict(it=[8], vars=['betay'])],
            # every component cached on its own at incomparable sets of iterations, then the tensor (twice)
            [dict(it=[6, 8], vars=['betax']), dict(it=[10, 12], vars=['betay']), dict(it=[8, 10], vars=['betaz']), dict(it=[6, 8, 10, 12], vars=['betaup3']),
             dict(it=[6, 8, 10, 12], vars=['alpha', 'betaup3'])],
            # the same variable and iterations at two refinement levels, level 0 cached first
            [dict(it=[0, 2, 4], vars=['alpha', 'betaup3'], rl=0), dict(it=[2, 4, 6], vars=['betaup3'], rl=1), dict(it=[0, 2, 4, 6], vars=['alpha', 'betaup3'], rl=1),
             dict(it=[0, 2, 4, 6], vars=['alpha', 'betaup3'], rl=0)],
            # a tensor named together with one of its own components, part of the request already cached
            [dict(it=[0, 2], vars=['betaup3', 'betax']), dict(it=[0, 2, 4, 6], vars=['betaup3', 'betax']), dict(it=[2, 4, 6, 8], vars=['betay', 'betaup3', 'alpha']),
             dict(it=[0, 2, 4, 6, 8], vars=['betay', 'betaup3', 'alpha'])]]
    for layout in (('onefile', 'grouped'), ('onefile', 'ungrouped'), ('proc', 'grouped')):
        for seq in seqs:
            root = tempfile.mkdtemp(prefix='c12_')
            try:
                truth = etgen.make_sim(root, 'sim', layout, restarts=[(0, [0, 2, 4], 0), (1, [4, 6, 8, 10, 12], 1)], shape=(5, 4, 3), cuts=(2, 1, 1),
                                       ghost=2, rls=(0, 1), variables=('alp', 'betax', 'betay', 'betaz'))
                p = etgen.param_for(root, 'sim')
                latest_ = {0: 0, 2: 0, 4: 1, 6: 1, 8: 1, 10: 1, 12: 1}
                for qi, req in enumerate(seq):
                    req = dict(req)
                    lv = req.pop('rl', 0)
                    d = aurel.read_data(p, verbose=False, skip_last=False, rl=lv, **req)
                    for av in dict.fromkeys(scalars(req['vars'])):
                        ev = {'alpha': 'alp'}.get(av, av)
                        if len(d[av]) != len(set(req['it'])):
                            bad.append(f'layout {layout}, after the calls {seq[:qi + 1]}: {av} has {len(d[av])} entries for {len(set(req["it"]))} iterations')
                            continue
                        for j, it in enumerate(sorted(req['it'])):
                            if d[av][j] is None or not np.array_equal(d[av][j], truth[(ev, it, lv, latest_[it])]):
                                bad.append(f'layout {layout}, after the calls {seq[:qi + 1]}: {av} at it={it} rl={lv} is not the stored data'
                                           + ('' if d[av][j] is None else f' (it is the data of (it, rl)={[(i, l_) for i in latest_ for l_ in (0, 1) if np.array_equal(d[av][j], truth[(ev, i, l_, latest_[i])])]})'))
            except Exception as e:
                bad.append(f'layout {layout}: raised {type(e).__name__}: {e}')
            finally:
                shutil.rmtree(root, ignore_errors=True)
            if bad:
                break
        if bad:
            break
    return bool(bad), ('; '.join(bad[:4]) if bad else 'cached read history on a generated directory: every value equals the uncached truth')


def run(R):
    from engine.canary import run_canaries
    run_canaries(R, ('symx',))
    import multiprocessing as mp
    import aurel.reading as Rm
    for n in ('read_ET_data', 'read_aurel_data', 'save_data', 'read_data', 'transform_vars_tensor_to_scalar'):
        R.under_contract(getattr(Rm, n))
    R.assume('A4', 'A6')
    R.trust('contract of read_ET_variables (C11): returns Truth(var, it, restart, rl) for the scalar components, it = sorted(set(it)); a grouped file delivers its whole group')
    R.trust('contract of iterations()/get_content() (C18) as catalogue and layout of the scenario')
    hs = histories(R.tier)
    jobs = [(h, gflag, 'A') for h in hs for gflag in (False, True)]
    idxb = range(len(POOL_B))
    hb = [[POOL_B[i]] for i in idxb] + [[POOL_B[i], POOL_B[j]] for i, j in itertools.product(idxb, repeat=2)]
    hb += [[POOL_B[a], POOL_B[b], POOL_B[c_]] for a, b, c_ in ((0, 1, 2), (1, 0, 4), (5, 6, 6), (0, 3, 2), (2, 2, 4))]
    jobs += [(h, gflag, 'B') for h in hb for gflag in (False, True)]
    # longer histories: every component of a tensor cached on its own at incomparable sets of iterations, then the tensor
    R4 = lambda it_, v_: dict(it=list(it_), vars=list(v_), rl=0)
    deep_b = [[R4([12, 14], ['betax']), R4([16, 18], ['betay']), R4([14, 16], ['betaz']), R4([12, 14, 16, 18], ['betaup3']), R4([12, 14, 16, 18], ['alpha', 'betaup3'])],
              [R4([20], ['betaz']), R4([12, 22], ['betax']), R4([14], ['betay']), R4([22, 20, 14, 12], ['betaup3'])],
              [R4([12, 16], ['gxx']), R4([14, 16], ['gyy']), R4([18], ['gxz']), R4([12, 14, 16, 18], ['gammadown3']), R4([12, 14, 16, 18], ['gammadown3'])]]
    deep_a = [[R4([0, 2], ['betax']), R4([4, 6], ['betay']), R4([2, 4], ['betaz']), R4([0, 2, 4, 6], ['betaup3']), R4([0, 2, 4, 6], ['alpha', 'betaup3'])],
              [R4([4], ['gxx']), R4([6], ['gyy']), R4([4, 6, 8], ['gammadown3']), R4([8, 6, 4], ['gammadown3'])]]
    jobs += [(h, gflag, 'B') for h in deep_b for gflag in (False, True)] + [(h, gflag, 'A') for h in deep_a for gflag in (False, True)]
    # random histories of 4-6 calls: any mixture of component / tensor names, iteration subsets, levels, cached and uncached calls
    import random as _random
    rng = _random.Random(f'C12/{R.seed}')
    names = ['alpha', 'betax', 'betay', 'betaz', 'betaup3', 'gxx', 'gyy', 'gxz', 'gammadown3']
    nrand = 1500 if R.tier == 'quick' else 20000
    comps = {'betaup3': ['betax', 'betay', 'betaz'], 'gammadown3': ['gxx', 'gxy', 'gxz', 'gyy', 'gyz', 'gzz']}
    for n_ in range(nrand):
        which = rng.choice('AB')
        its_all = [0, 2, 4, 6, 8] if which == 'A' else list(range(8, 26, 2))
        h = []
        if n_ % 2 == 0:
            # template: several components of one tensor cached on their own at random subsets, then the tensor (twice)
            T = rng.choice(list(comps))
            block = its_all if which == 'A' else rng.sample([its_all[:5], its_all[3:], its_all[1:7]], 1)[0]
            for cname in rng.sample(comps[T], rng.randint(2, 3)):
                h.append(dict(it=rng.sample(block, rng.randint(1, max(1, len(block) - 2))), vars=[cname], rl=0))
            wide = rng.sample(block, rng.randint(max(2, len(block) - 2), len(block)))
            h.append(dict(it=wide, vars=rng.choice([[T], ['alpha', T], [T, 'alpha']]), rl=0))
            h.append(dict(it=list(wide), vars=[T], rl=0))
            jobs.append((h, rng.random() < 0.7, which))
            continue
        for _c in range(rng.randint(4, 6)):
            req = dict(it=rng.sample(its_all, rng.randint(1, min(5, len(its_all)))), vars=rng.sample(names, rng.randint(1, 2)), rl=rng.choice([0, 0, 0, 1]))
            if rng.random() < 0.1:
                req['split_per_it'] = False
            h.append(req)
        jobs.append((h, rng.random() < 0.6, which))
    t0 = time.time()
    with mp.Pool(14) as pool:
        res = pool.map(run_history, jobs, chunksize=16)
    agg = {}
    total = 0
    for fails, checks in res:
        total += checks
        for k, v in fails.items():
            agg.setdefault(k, v)
    labels = ['(a) each entry equals what an uncached read returns (Truth of var, it, latest restart, level)', '(a) every requested component is returned',
              '(b) every dataset written to a cache file holds the data of the variable, iteration, level and restart it is filed under',
              '(b) cache files live in <restart>/all_iterations/it_<n>.hdf5',
              '(c) rows are the sorted requested iterations that exist; columns have equal length', '(d) an identical second call returns the same values',
              '(d) ... and takes them from the cache (no ET read)', 'reads do not raise']
    secs = time.time() - t0
    R.bounded.append(dict(function='read_data with split_per_it (history of calls)', bound=f'{len(jobs)} histories (<= 3 calls from two pools, plus 4-5 call histories caching every component of a tensor separately, plus random histories of 4-6 calls) over {len(POOL)} + {len(POOL_B)} requests (up to 8 iterations per request, cached iterations in the interior of a block) x grouped/ungrouped; {total} checks; contents opaque'))
    for lb in labels:
        R.ob(f'reading.read_ET_data[cache]:{lb}', 'read_ET_data', 'refuted' if lb in agg else 'bounded-ok', 'model-histories', secs / len(labels),
             agg.get(lb, ''), [lb] if lb in agg else None, bounded=f'{len(jobs)} histories', replay=native_replay)
    R.extra['explanation'] = (f'invariant CacheOK and value-equality checked after every call of {len(jobs)} call histories of the real cache branch on a file-system model '
                              'with contract-stubbed ET reads; contents universally quantified, histories bounded')
