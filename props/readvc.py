"""Loop contracts for aurel.reading.read_aurel_data -- UNBOUNDED in the number of requested iterations, of variable
names, of files and of datasets per file (C13, read side).

The real statements are cut out of the AST on every run.  Comprehensions and dict displays are rewritten mechanically
into calls of helper functions that receive the element / filter as lambdas (so that a comprehension over a symbolic
list becomes a predicate transformer); nothing else is changed.  Loops are matched to contracts by what they iterate:

  outer  (sorted distinct requested iterations, position j = rank(i)):  invariant Inv(j) over the result dictionary
         (a) 'it' not in var, 't' in var          (b) every name in var has a column      (c) every column has length j
         (d) every column's name is in var        (e) entry m < j of column q == Spec(itat(m), q)
         (f) names: var == V0 (explicit request)  |  var == V0 + every name with a dataset at this level in a file already
             visited (vars == []), with a ghost witness position for the inclusion "only those"
         inductive step: from an ARBITRARY result state satisfying Inv(j) the body establishes Inv(j+1)
  scan   (for key in f.keys(), vars == [] only): var' = var + {names with a dataset ' rl=<rl>' in this file}
  append (for key in var): every column in var gets exactly one more entry E(q) = stored array if the file exists and holds
         (q, rl) else None; a column that does not exist yet is created with j leading None; other columns untouched

  Spec(i, q) = val[rl][i][q] if exists(i) and has[rl][i][q] else None
  ensures  result['it'] = sorted distinct requested iterations; every column has one entry per requested iteration;
           entry = Spec; names = V0 resp. V0 + names saved at this level in one of the requested files; arguments unchanged.
"""
import ast
import builtins
import time
import z3

from engine import symx as SX
from engine.symx import Z, explore, prove, to_z3
from engine import fsmodel as FM
from props import savevc as SV
from props.savevc import I, B, SKey, SName, SVarList, SIterList, SSorted, SIterSet, SVal, lit_id, kid, as_name

ID_IT, ID_T = SV.LIT['it'], SV.LIT['t']
NONE = -1          # encoding of None entries in value arrays is by a separate boolean array; this is unused padding


class RWorld:
    def __init__(self, c, rl):
        self.c, self.rl = c, rl
        self.sfx = f' rl={rl}'
        self.suffixes = [self.sfx] + [s for s in (' rl=0', ' rl=1', ' rl=10', ' rl=11') if s != self.sfx]
        self.exists = z3.Function('exists', I, B)
        self.has = {s: z3.Array(f'has[{s}]', I, z3.ArraySort(I, B)) for s in self.suffixes}
        self.val = {s: z3.Array(f'val[{s}]', I, z3.ArraySort(I, I)) for s in self.suffixes}
        self.invars = z3.Function('invars', I, B)
        self.vars_empty = z3.Bool('vars_empty')
        self.init = z3.Function('init', I, B)
        self.rank = z3.Function('rank', I, I)
        self.itat = z3.Function('itat', I, I)
        self.n = z3.Int('n_it')
        k, a, b, m = z3.Int('k!w'), z3.Int('i!a'), z3.Int('i!b'), z3.Int('m!w')
        c.assume(z3.Implies(self.vars_empty, z3.ForAll([k], z3.Not(self.invars(k)))))
        c.assume(z3.Implies(z3.Not(self.vars_empty), self.invars(z3.Int('k!some'))))
        c.assume(self.n >= 0)
        c.assume(z3.ForAll([a], z3.Implies(self.init(a), z3.And(self.rank(a) >= 0, self.rank(a) < self.n, self.itat(self.rank(a)) == a))))
        c.assume(z3.ForAll([m], z3.Implies(z3.And(m >= 0, m < self.n), z3.And(self.init(self.itat(m)), self.rank(self.itat(m)) == m))))
        self.reads = []

    def spec_present(self, i, q):
        return z3.And(self.exists(i), z3.Select(z3.Select(self.has[self.sfx], i), q))

    def spec_val(self, i, q):
        return z3.Select(z3.Select(self.val[self.sfx], i), q)

    def V0(self, q):
        return z3.Or(z3.And(self.invars(q), q != ID_IT), q == ID_T)


class RKey(SKey):
    def __eq__(self, o):
        if isinstance(o, str):
            return Z(self.e == lit_id(o))
        return Z(self.e == kid(o))

    def __ne__(self, o):
        if isinstance(o, str):
            return Z(self.e != lit_id(o))
        return Z(self.e != kid(o))

    __hash__ = SKey.__hash__


class RName(SName):
    """dataset name met while listing a file: '<key><suffix>' with a concrete suffix"""

    def endswith(self, s):
        return self.suffix.endswith(s) if isinstance(s, str) else False

    def __contains__(self, s):
        # requires: variable names do not contain ' rl' -- a substring starting with ' rl' can only sit in the suffix
        if isinstance(s, str) and s.startswith(' rl'):
            return s in self.suffix
        raise SX.PathAbort(f'substring test {s!r} in a dataset name')

    def startswith(self, s):
        raise SX.PathAbort('startswith on a dataset name')

    def split(self, sep=None, maxsplit=-1):
        # requires: variable names do not themselves contain the separator ' rl'
        if sep is not None and sep in self.suffix:
            head, tail = self.suffix.split(sep, 1)
            if head != '':
                raise SX.PathAbort(f'split({sep!r}) inside the suffix {self.suffix!r}')
            return [RKey(self.k), tail]
        raise SX.PathAbort(f'split({sep!r}) of a dataset name')


class NoneRun:
    """[None] * n"""

    def __init__(self, n):
        self.n = n


class Pos(Z):
    """it_index: an integer that may multiply a list ([None] * it_index)"""

    def __rmul__(self, o):
        if isinstance(o, list):
            if o == [None]:
                return NoneRun(self.e)
            raise SX.PathAbort('list * symbolic length for a list other than [None]')
        return Z.__rmul__(self, o)

    __mul__ = __rmul__
    __hash__ = None


class ColumnsInit:
    """{v: [] for v in var}"""

    def __init__(self, pred):
        self.pred = pred

    def __ror__(self, other):
        # {'it': ...} | {v: [] for v in var}
        if isinstance(other, dict):
            return SResult(dict(other), self.pred)
        return NotImplemented

    def __bool__(self):
        raise SX.PathAbort('truth value of the symbolic column set')


class ColRef:
    def __init__(self, res, q):
        self.res, self.q = res, q

    def append(self, x):
        r = self.res
        ln = z3.Select(r.clen, self.q)
        if x is None:
            r.cnone = z3.Store(r.cnone, self.q, z3.Store(z3.Select(r.cnone, self.q), ln, z3.BoolVal(True)))
        elif isinstance(x, SVal):
            r.cnone = z3.Store(r.cnone, self.q, z3.Store(z3.Select(r.cnone, self.q), ln, z3.BoolVal(False)))
            r.cval = z3.Store(r.cval, self.q, z3.Store(z3.Select(r.cval, self.q), ln, x.e))
        else:
            raise SX.PathAbort(f'append of an unexpected value {x!r}')
        r.clen = z3.Store(r.clen, self.q, ln + 1)
        r.log.append(('append', self.q))

    def __iadd__(self, lst):
        for x in lst:
            self.append(x)
        return self


class ResKeys:
    def __init__(self, res):
        self.res = res

    def __bool__(self):
        raise SX.PathAbort('truth value of the key view of the result')

    def __contains__(self, name):
        if isinstance(name, str) and name in self.res.concrete:
            return True
        return SX.ctx().branch(z3.Select(self.res.keyset, kid(name)))


class SResult:
    """the dictionary being built: concrete entries ('it') + symbolic columns"""

    def __init__(self, concrete, pred):
        q = z3.Int('q!r')
        self.concrete = dict(concrete)
        self.keyset = z3.Lambda([q], pred(q))
        self.clen = z3.K(I, z3.IntVal(0))
        self.cval = z3.Array('cval0', I, z3.ArraySort(I, I))
        self.cnone = z3.Array('cnone0', I, z3.ArraySort(I, B))
        self.log = []

    def keys(self):
        return ResKeys(self)

    def __bool__(self):
        return True          # the result always holds the 'it' entry

    def __contains__(self, name):
        return ResKeys(self).__contains__(name)

    def __getitem__(self, name):
        if isinstance(name, str) and name in self.concrete:
            return self.concrete[name]
        q = kid(name)
        SX.ctx().require('result[key]: the column exists (no KeyError)', z3.Select(self.keyset, q))
        return ColRef(self, q)

    def __setitem__(self, name, v):
        q = kid(name)
        if isinstance(name, str) and name in self.concrete:
            raise SX.PathAbort('overwriting a bookkeeping entry of the result')
        if isinstance(v, ColRef) and z3.eq(v.q, q) and v.res is self:
            return                                   # data[key] += [...] stores the same column back
        if isinstance(v, NoneRun):
            self.keyset = z3.Store(self.keyset, q, z3.BoolVal(True))
            self.clen = z3.Store(self.clen, q, v.n)
            self.cnone = z3.Store(self.cnone, q, z3.K(I, z3.BoolVal(True)))
            self.log.append(('create', q))
            return
        if isinstance(v, list) and v == []:
            self.keyset = z3.Store(self.keyset, q, z3.BoolVal(True))
            self.clen = z3.Store(self.clen, q, z3.IntVal(0))
            self.log.append(('create', q))
            return
        raise SX.PathAbort(f'result[key] = {v!r}')

    def setdefault(self, name, default=None):
        if name not in self.keys():
            self[name] = default
        return self[name]

    def get(self, name, default=None):
        return self[name] if name in self.keys() else default

    def havoc(self, c, tag):
        self.keyset = z3.Array(f'keyset!{tag}', I, B)
        self.clen = z3.Array(f'clen!{tag}', I, I)
        self.cval = z3.Array(f'cval!{tag}', I, z3.ArraySort(I, I))
        self.cnone = z3.Array(f'cnone!{tag}', I, z3.ArraySort(I, B))

    def snapshot(self):
        return self.keyset, self.clen, self.cval, self.cnone


class RFileKeys:
    def __init__(self, f):
        self.f = f

    def __contains__(self, name):
        nm = as_name(name)
        w = self.f.w
        if nm.suffix not in w.has:
            raise SX.PathAbort(f'membership test for a suffix outside the modelled set: {nm.suffix!r}')
        return SX.ctx().branch(z3.Select(z3.Select(w.has[nm.suffix], self.f.i), nm.k))

    def __iter__(self):
        raise SX.PathAbort('iteration over the datasets of a file outside a loop contract')

    def __bool__(self):
        raise SX.PathAbort('truth value of the dataset list of a file')


class RFile:
    def __init__(self, w, i, mode):
        self.w, self.i, self.mode = w, i, mode
        SX.ctx().require('h5py.File(name, "r"): the file exists (no FileNotFoundError)', w.exists(i))
        if mode != 'r':
            SX.ctx().require('the reader opens files read-only', z3.BoolVal(False))

    def __enter__(self):
        return self

    def __exit__(self, *a):
        return False

    def keys(self):
        return RFileKeys(self)

    def __contains__(self, name):
        return RFileKeys(self).__contains__(name)

    def __getitem__(self, name):
        nm = as_name(name)
        w = self.w
        SX.ctx().require('f[name]: the dataset exists (no KeyError)', z3.Select(z3.Select(w.has[nm.suffix], self.i), nm.k))
        return SVal(z3.Select(z3.Select(w.val[nm.suffix], self.i), nm.k))


class Rewriter(ast.NodeTransformer):
    """comprehensions / dict displays with ** -> helper calls (mechanical)"""

    def _lam(self, target, body):
        # free names of the element / filter are bound as defaults (evaluated where the comprehension stands): code run
        # through exec() with separate globals and locals would otherwise not see the function's local variables
        tnames = [n.id for n in ast.walk(target) if isinstance(n, ast.Name)]
        free = sorted({n.id for n in ast.walk(body) if isinstance(n, ast.Name) and isinstance(n.ctx, ast.Load) and n.id not in tnames
                       and not n.id.startswith('__')})
        mk = lambda first: ast.arguments(posonlyargs=[], args=[ast.arg(arg=a) for a in first] + [ast.arg(arg=n) for n in free], kwonlyargs=[], kw_defaults=[],
                                         defaults=[ast.Name(id=n, ctx=ast.Load()) for n in free])
        if isinstance(target, ast.Name):
            return ast.Lambda(args=mk([target.id]), body=body)
        # tuple target (for key, value in ...): one argument, unpacked by an inner lambda
        inner = ast.Lambda(args=ast.arguments(posonlyargs=[], args=[ast.arg(arg=a) for a in tnames], kwonlyargs=[], kw_defaults=[], defaults=[]), body=body)
        return ast.Lambda(args=mk(['__item']), body=ast.Call(func=inner, args=[ast.Starred(value=ast.Name(id='__item', ctx=ast.Load()), ctx=ast.Load())], keywords=[]))

    def _cond(self, gen):
        if not gen.ifs:
            return ast.Constant(True)
        return gen.ifs[0] if len(gen.ifs) == 1 else ast.BoolOp(op=ast.And(), values=list(gen.ifs))

    def visit_ListComp(self, node):
        self.generic_visit(node)
        if len(node.generators) != 1 or not (isinstance(node.generators[0].target, ast.Name) or (isinstance(node.generators[0].target, ast.Tuple) and all(isinstance(e_, ast.Name) for e_ in node.generators[0].target.elts))):
            return node
        g = node.generators[0]
        return ast.Call(func=ast.Name(id='__lc__', ctx=ast.Load()), args=[self._lam(g.target, node.elt), self._lam(g.target, self._cond(g)), g.iter], keywords=[])

    def visit_DictComp(self, node):
        self.generic_visit(node)
        if len(node.generators) != 1 or not isinstance(node.generators[0].target, ast.Name):
            return node
        g = node.generators[0]
        return ast.Call(func=ast.Name(id='__dc__', ctx=ast.Load()),
                        args=[self._lam(g.target, node.key), self._lam(g.target, node.value), self._lam(g.target, self._cond(g)), g.iter], keywords=[])

    def visit_Dict(self, node):
        self.generic_visit(node)
        if all(k is not None for k in node.keys):
            return node
        pairs = ast.List(elts=[ast.Tuple(elts=[k, v], ctx=ast.Load()) for k, v in zip(node.keys, node.values) if k is not None], ctx=ast.Load())
        unp = ast.List(elts=[v for k, v in zip(node.keys, node.values) if k is None], ctx=ast.Load())
        return ast.Call(func=ast.Name(id='__dict__', ctx=ast.Load()), args=[pairs, unp], keywords=[])


def make_globals(w, real_globals, datapath_ok):
    g = dict(real_globals)

    def s_list(x=()):
        if isinstance(x, SVarList):
            return x.copy()
        if isinstance(x, RFileKeys):
            return x
        return builtins.list(x)

    def s_set(x=()):
        if isinstance(x, SIterList):
            return SIterSet(x.pred)
        if isinstance(x, SVarList):
            return x.copy()                    # a set of names: same membership predicate, duplicates are not represented
        return builtins.set(x)

    def s_sorted(x, **kw):
        if isinstance(x, SIterList):
            return SSorted(x.pred)
        return builtins.sorted(x, **kw)

    def s_int(v, *a):
        return v if isinstance(v, Z) else builtins.int(v, *a)

    def lc(elt_f, cond_f, it):
        if isinstance(it, SVarList):
            c = SX.ctx()
            k = c.new_int('k!lc')
            probe = RKey(k)
            if elt_f(probe) is not probe:
                raise SX.PathAbort('list comprehension over the names that is not a filter')
            cv = cond_f(probe)
            old = it.pred
            if cv is True:
                return SVarList(old, it.empty)
            if isinstance(cv, Z) and z3.is_bool(cv.e):
                e = cv.e
                return SVarList(lambda q, old=old, e=e, k=k: z3.And(old(q), z3.substitute(e, (k, q))), z3.Bool(f'empty!{next(c.fresh)}'))
            raise SX.PathAbort('filter of a comprehension over the names not understood')
        if isinstance(it, RFileKeys):
            # names derived from the datasets of a file: one generic dataset per suffix of the modelled set
            c = SX.ctx()
            f = it.f
            parts = []
            for sx in w.suffixes:
                k = c.new_int('k!fk')
                probe = RName(k, sx)
                cv = cond_f(probe)
                if isinstance(cv, Z):
                    raise SX.PathAbort('filter over the dataset names that depends on the name itself')
                if not cv:
                    continue
                e = elt_f(probe)
                if not (isinstance(e, SKey) and z3.eq(e.e, k)):
                    raise SX.PathAbort('comprehension over the dataset names whose element is not the variable name')
                parts.append(sx)
            return SVarList(lambda q, parts=parts: z3.Or(*[z3.Select(z3.Select(w.has[sx], f.i), q) for sx in parts]) if parts else z3.BoolVal(False),
                            z3.Bool(f'empty!{next(c.fresh)}'))
        return [elt_f(x) for x in it if cond_f(x)]

    def dc(key_f, val_f, cond_f, it):
        if isinstance(it, SVarList):
            c = SX.ctx()
            probe = RKey(c.new_int('k!dc'))
            if key_f(probe) is not probe or val_f(probe) != [] or cond_f(probe) is not True:
                raise SX.PathAbort('dict comprehension over the names other than {v: [] for v in var}')
            return ColumnsInit(it.pred)
        return {key_f(x): val_f(x) for x in it if cond_f(x)}

    def dct(pairs, unpacked):
        sym = [u for u in unpacked if isinstance(u, ColumnsInit)]
        if not sym:
            out = dict(pairs)
            for u in unpacked:
                out.update(u)
            return out
        if len(sym) != 1 or len(unpacked) != 1:
            raise SX.PathAbort('dict display with several unpacked mappings')
        return SResult(dict(pairs), sym[0].pred)

    class H5:
        def File(self, name, mode='r'):
            tmpl, toks = FM.parse_name(name)
            if len(toks) != 1 or not datapath_ok(tmpl):
                SX.ctx().require(f'file name is <datapath>/it_<iteration>.hdf5 (got template {tmpl!r})', z3.BoolVal(False))
                raise SX.PathEnd()
            return RFile(w, to_z3(toks[0]), mode)

    class OSP:
        def exists(self, p):
            if isinstance(p, str) and p.endswith('.hdf5'):
                tmpl, toks = FM.parse_name(p)
                if len(toks) != 1 or not datapath_ok(tmpl):
                    SX.ctx().require(f'file name is <datapath>/it_<iteration>.hdf5 (got template {tmpl!r})', z3.BoolVal(False))
                    raise SX.PathEnd()
                return SX.ctx().branch(w.exists(to_z3(toks[0])))
            return True

        def __getattr__(self, n):
            import os
            return getattr(os.path, n)

    class OS:
        path = OSP()

        def __getattr__(self, n):
            import os
            return getattr(os, n)

    class NP:
        def __getattr__(self, n):
            import numpy
            return getattr(numpy, n)

        def array(self, x, *a, **k):
            if isinstance(x, (SVal, SSorted)):
                return x
            import numpy
            return numpy.array(x, *a, **k)
        asarray = array
    g.update(list=s_list, set=s_set, sorted=s_sorted, int=s_int, h5py=H5(), os=OS(), np=NP(), print=lambda *a, **k: None,
             __lc__=lc, __dc__=dc, __dict__=dct)
    return g


def eval_expr(node, glb, loc):
    return eval(compile(ast.fix_missing_locations(ast.Expression(body=node)), '<test>', 'eval'), glb, loc)


class Driver:
    def __init__(self, w, glb):
        self.w, self.glb, self.c = w, glb, w.c
        self.cur_i = None
        self.cur_j = None
        self.done_outer = False

    def run_stmts(self, stmts, loc):
        seg = []

        def flush():
            nonlocal seg
            if seg:
                r_ = SX.run_block_status(seg, self.glb, loc)
                seg = []
                return r_
            return 'completed'
        for st in stmts:
            if isinstance(st, (ast.For, ast.While, ast.If, ast.With, ast.Return)):
                r = flush()
                if r != 'completed':
                    return r
                if isinstance(st, ast.Return):
                    loc['__return__'] = eval_expr(st.value, self.glb, loc) if st.value is not None else None
                    return 'return'
                if isinstance(st, ast.If):
                    t = eval_expr(st.test, self.glb, loc)
                    r = self.run_stmts(st.body if bool(t) else st.orelse, loc)
                    if r != 'completed':
                        return r
                elif isinstance(st, ast.With):
                    if len(st.items) != 1:
                        raise SX.PathAbort('with-statement with several items')
                    cm = eval_expr(st.items[0].context_expr, self.glb, loc)
                    v = cm.__enter__()
                    if st.items[0].optional_vars is not None:
                        loc[st.items[0].optional_vars.id] = v
                    r = self.run_stmts(st.body, loc)
                    cm.__exit__(None, None, None)
                    if r != 'completed':
                        return r
                elif isinstance(st, ast.While):
                    raise SX.PathAbort('while loop without a contract')
                else:
                    r = self.loop(st, loc)
                    if r == 'return':
                        return r
            else:
                seg.append(st)
        return flush()

    def targets(self, node):
        t = node.target
        return [n.id for n in (t.elts if isinstance(t, ast.Tuple) else [t])]

    # ------------------------------------------------------------------ invariant of the outer loop
    def inv(self, res, var, j, ghost_wit):
        w = self.w
        q, m = z3.Int('q!i'), z3.Int('m!i')
        ks, cl, cv, cn = res.snapshot()
        spec_p = lambda mm, qq: w.spec_present(w.itat(mm), qq)
        parts = dict(
            a=z3.And(z3.Not(var.pred(z3.IntVal(ID_IT))), var.pred(z3.IntVal(ID_T))),
            b=z3.ForAll([q], z3.Implies(var.pred(q), z3.Select(ks, q))),
            c=z3.ForAll([q], z3.Implies(z3.Select(ks, q), z3.Select(cl, q) == j)),
            d=z3.ForAll([q], z3.Implies(z3.Select(ks, q), var.pred(q))),
            e=z3.ForAll([q, m], z3.Implies(z3.And(z3.Select(ks, q), m >= 0, m < j),
                                           z3.And(z3.Select(z3.Select(cn, q), m) == z3.Not(spec_p(m, q)),
                                                  z3.Implies(spec_p(m, q), z3.Select(z3.Select(cv, q), m) == w.spec_val(w.itat(m), q))))),
            f=z3.If(w.vars_empty,
                    z3.And(z3.ForAll([q, m], z3.Implies(z3.And(m >= 0, m < j, q != ID_IT, spec_p(m, q)), var.pred(q))),
                           z3.ForAll([q], z3.Implies(z3.And(var.pred(q), q != ID_T),
                                                     z3.And(ghost_wit(q) >= 0, ghost_wit(q) < j, spec_p(ghost_wit(q), q), q != ID_IT)))),
                    z3.ForAll([q], var.pred(q) == w.V0(q))))
        return parts

    def loop(self, node, loc):
        c, w = self.c, self.w
        is_enum = isinstance(node.iter, ast.Call) and ast.unparse(node.iter.func) == 'enumerate'
        its = eval_expr(node.iter.args[0] if is_enum else node.iter, self.glb, loc)
        names = self.targets(node)
        if isinstance(its, (tuple, list, range, str, dict)) and not any(isinstance(x, Z) for x in its):
            for n_, item in enumerate(builtins.list(its)):
                if is_enum:
                    loc[names[0]], loc[names[1]] = n_, item
                elif len(names) == 1:
                    loc[names[0]] = item
                else:
                    for nm_, v_ in zip(names, item):
                        loc[nm_] = v_
                r = self.run_stmts(node.body, loc)
                if r == 'break':
                    break
                if r == 'return':
                    return r
            return 'completed'
        if isinstance(its, SSorted):
            return self.outer(node, loc, its, names, is_enum)
        if isinstance(its, RFileKeys):
            return self.scan(node, loc, its, names)
        if isinstance(its, SVarList):
            return self.append_per_key(node, loc, its, names)
        if isinstance(its, SIterList):
            c.require('the iterations are traversed as sorted(set(it))', z3.BoolVal(False))
            raise SX.PathEnd()
        raise SX.PathAbort(f'loop over {type(its).__name__}: no contract')

    def find(self, loc, cls):
        hits = [(n, v) for n, v in loc.items() if isinstance(v, cls)]
        return hits

    def outer(self, node, loc, its, names, is_enum):
        c, w = self.c, self.w
        res_hits = self.find(loc, SResult)
        var_hits = [(n, v) for n, v in self.find(loc, SVarList) if n != 'kwargs']
        if len(res_hits) != 1:
            raise SX.PathAbort('the result dictionary is not (uniquely) identifiable before the loop over the iterations')
        rname, res = res_hits[0]
        # the list of names that the body iterates: found by name in the body's inner loops
        inner = [ast.unparse(n.iter) for n in ast.walk(node) if isinstance(n, ast.For) and n is not node]
        cand = [n for n, v in var_hits if n in inner]
        if len(cand) != 1:
            raise SX.PathAbort(f'the list of names used by the loop body is not identifiable ({inner})')
        vname = cand[0]
        var = loc[vname]
        wit0 = z3.Function(f'wit!{next(c.fresh)}', I, I)
        # ---- Inv(0) on entry
        for tag, f in self.inv(res, var, z3.IntVal(0), wit0).items():
            c.require(f'outer loop: invariant ({tag}) holds on entry (j = 0)', f)
        c.require("outer loop: the 'it' column is the sorted distinct requested iterations", z3.BoolVal(res.concrete.get('it') is its))
        # ---- inductive step from an arbitrary state
        res.havoc(c, 'L0')
        pv = z3.Function(f'var!{next(c.fresh)}', I, B)
        var_h = SVarList(lambda q: pv(q), z3.BoolVal(False))
        loc2 = dict(loc)
        loc2[vname] = var_h
        i = c.new_int('iit')
        j = w.rank(i)
        wit = z3.Function(f'wit!{next(c.fresh)}', I, I)
        n0 = len(c.pc)
        c.assume(its.pred(i))
        for f in self.inv(res, var_h, j, wit).values():
            c.assume(f)
        if is_enum:
            loc2[names[0]], loc2[names[1]] = Pos(j), Z(i)
        else:
            loc2[names[0]] = Z(i)
        self.cur_i, self.cur_j = i, j
        c.require('CANARY outer loop: the assumed invariant Inv(j) is satisfiable (this obligation must be refuted)', z3.BoolVal(False))
        r = self.run_stmts(node.body, loc2)
        c.require('outer loop: body neither breaks nor returns', z3.BoolVal(r in ('completed', 'continue')))
        var1 = loc2[vname]
        if not isinstance(var1, SVarList) or loc2[rname] is not res:
            c.require('outer loop: the body keeps the result dictionary and a list of names', z3.BoolVal(False))
            raise SX.PathEnd()
        # ghost update of the witness: names first met in this file are witnessed by position j
        q = z3.Int('q!g')
        wit1 = z3.Function(f'wit!{next(c.fresh)}', I, I)
        c.assume(z3.ForAll([q], wit1(q) == z3.If(z3.And(pv(q), q != ID_T), wit(q), j)))
        for tag, f in self.inv(res, var1, j + 1, wit1).items():
            c.require(f'outer loop: inductive step -- invariant ({tag}) re-established for j + 1', f)
        del c.pc[n0:]
        # ---- after the loop: Inv(n) for an arbitrary final state
        res.havoc(c, 'end')
        pv_end = z3.Function(f'var!{next(c.fresh)}', I, B)
        var_end = SVarList(lambda q: pv_end(q), z3.BoolVal(False))
        wit_end = z3.Function(f'wit!{next(c.fresh)}', I, I)
        for f in self.inv(res, var_end, w.n, wit_end).values():
            c.assume(f)
        c.require('CANARY after the loop: the final invariant is satisfiable (this obligation must be refuted)', z3.BoolVal(False))
        loc[vname] = var_end
        self.final = (res, var_end, wit_end)
        self.done_outer = True
        for nme in names:
            loc.pop(nme, None)
        return 'completed'

    def scan(self, node, loc, keys, names):
        """for key in f.keys(): the body may only extend one list of names by names derived from the key"""
        c, w = self.c, self.w
        var_hits = [(n, v) for n, v in self.find(loc, SVarList) if n != 'kwargs']
        before = {n: (v, v.pred) for n, v in var_hits}
        f = keys.f
        added = []
        for s in w.suffixes:
            k = c.new_int('dskey')
            n0 = len(c.pc)
            c.assume(z3.Select(z3.Select(w.has[s], f.i), k))
            loc2 = dict(loc)
            loc2[names[0]] = RName(k, s)
            copies = {n: v.copy() for n, (v, _) in before.items()}
            loc2.update(copies)
            r = self.run_stmts(node.body, loc2)
            c.require('scan loop: body does not break', z3.BoolVal(r in ('completed', 'continue')))
            for n, cp in copies.items():
                v1 = loc2[n]
                if not isinstance(v1, SVarList):
                    c.require('scan loop: the lists of names stay lists', z3.BoolVal(False))
                    continue
                if v1.mutated or v1 is not cp:
                    # the body extended list n: it must be by exactly the name of this dataset
                    qq = c.new_int('q!s')
                    c.require(f'scan loop: a dataset "<name>{s}" adds exactly <name> to the list',
                              v1.pred(qq) == z3.Or(before[n][1](qq), qq == k))
                    added.append((n, s))
            del c.pc[n0:]
        for n, s in added:
            v, old = before[n]
            v.pred = (lambda q, old=v.pred, s=s: z3.Or(old(q), z3.Select(z3.Select(w.has[s], f.i), q)))
            v.empty = z3.Bool(f'empty!{next(c.fresh)}')
        loc.pop(names[0], None)
        return 'completed'

    def append_per_key(self, node, loc, var, names):
        """for key in var: every column named in var gets one more entry"""
        c, w = self.c, self.w
        res_hits = self.find(loc, SResult)
        if len(res_hits) != 1 or self.cur_i is None:
            raise SX.PathAbort('loop over the names outside the loop over the iterations')
        res = res_hits[0][1]
        i, j = self.cur_i, self.cur_j
        entry = res.snapshot()
        q0 = z3.Int('q!p')
        c.require('append loop: on entry every existing column has length j (from the outer invariant)',
                  z3.ForAll([q0], z3.Implies(z3.Select(entry[0], q0), z3.Select(entry[1], q0) == j)))
        c.require('append loop: on entry, when the file does not exist, every name of the list already has a column (no KeyError)',
                  z3.Implies(z3.Not(w.exists(i)), z3.ForAll([q0], z3.Implies(var.pred(q0), z3.Select(entry[0], q0)))))
        # inductive step from an arbitrary result state in which the already-visited part is unknown
        res.havoc(c, f'A{next(c.fresh)}')
        ks, cl, cv, cn = res.snapshot()
        k = c.new_int('key')
        n0 = len(c.pc)
        c.assume(var.pred(k))
        # the part of the invariant the body may rely on: existing columns have length j
        c.assume(z3.Implies(z3.Select(ks, k), z3.Select(cl, k) == j))
        # in a branch without file access every name of the list must already have a column (else KeyError): from Inv (b)
        c.assume(z3.Implies(z3.Not(w.exists(i)), z3.Select(ks, k)))
        c.require('CANARY append loop: the generic step is reachable (this obligation must be refuted)', z3.BoolVal(False))
        loc2 = dict(loc)
        loc2[names[0]] = RKey(k)
        nlog = len(res.log)
        r = self.run_stmts(node.body, loc2)
        c.require('append loop: body does not break', z3.BoolVal(r in ('completed', 'continue')))
        own = all(z3.eq(z3.simplify(e[1]), z3.simplify(k)) for e in res.log[nlog:])
        c.require('append loop: the body touches only the column of its own name', z3.BoolVal(own))
        ks1, cl1, cv1, cn1 = res.snapshot()
        pres = w.spec_present(i, k)
        c.require('append loop: the column exists afterwards and has exactly one more entry (j + 1)',
                  z3.And(z3.Select(ks1, k), z3.Select(cl1, k) == j + 1))
        c.require('append loop: the new entry is the stored array of (iteration, name, level), or None if the file or dataset is missing',
                  z3.And(z3.Select(z3.Select(cn1, k), j) == z3.Not(pres),
                         z3.Implies(pres, z3.Select(z3.Select(cv1, k), j) == w.spec_val(i, k))))
        m = z3.Int('m!a')
        c.require('append loop: earlier entries are kept; a column created now starts with j None entries',
                  z3.ForAll([m], z3.Implies(z3.And(m >= 0, m < j),
                                            z3.If(z3.Select(ks, k),
                                                  z3.And(z3.Select(z3.Select(cn1, k), m) == z3.Select(z3.Select(cn, k), m),
                                                         z3.Select(z3.Select(cv1, k), m) == z3.Select(z3.Select(cv, k), m)),
                                                  z3.Select(z3.Select(cn1, k), m)))))
        del c.pc[n0:]
        # ---- summary applied to the entry state
        ks0, cl0, cv0, cn0 = entry
        res.havoc(c, f'S{next(c.fresh)}')
        ks2, cl2, cv2, cn2 = res.snapshot()
        q = z3.Int('q!a')
        inq = var.pred(q)
        presq = w.spec_present(i, q)
        c.assume(z3.ForAll([q], z3.And(
            z3.Select(ks2, q) == z3.Or(z3.Select(ks0, q), inq),
            z3.Select(cl2, q) == z3.If(inq, j + 1, z3.Select(cl0, q)),
            z3.Implies(z3.Not(inq), z3.And(z3.Select(cv2, q) == z3.Select(cv0, q), z3.Select(cn2, q) == z3.Select(cn0, q))),
            z3.Implies(inq, z3.And(z3.Select(z3.Select(cn2, q), j) == z3.Not(presq),
                                   z3.Implies(presq, z3.Select(z3.Select(cv2, q), j) == w.spec_val(i, q)))))))
        c.assume(z3.ForAll([q, m], z3.Implies(z3.And(inq, m >= 0, m < j),
                                              z3.If(z3.Select(ks0, q),
                                                    z3.And(z3.Select(z3.Select(cn2, q), m) == z3.Select(z3.Select(cn0, q), m),
                                                           z3.Select(z3.Select(cv2, q), m) == z3.Select(z3.Select(cv0, q), m)),
                                                    z3.Select(z3.Select(cn2, q), m)))))
        loc.pop(names[0], None)
        return 'completed'


def read_paths(rl, param):
    import aurel.reading as Rm
    tree, _ = SX.extract_loops(Rm.read_aurel_data)
    tree = ast.fix_missing_locations(Rewriter().visit(tree))

    def run():
        c = SX.ctx()
        c.timeout_ms = 1500
        w = RWorld(c, rl)

        def datapath_ok(tmpl):
            if 'simulation' in param:
                return tmpl == f"{param['simpath']}{param['simname']}/output-0000/{param['simname']}/all_iterations/it_\x00.hdf5"
            d = param['datapath'] if param['datapath'].endswith('/') else param['datapath'] + '/'
            return tmpl == f'{d}it_\x00.hdf5'
        glb = make_globals(w, Rm.__dict__, datapath_ok)
        caller_vars = SVarList(lambda k: w.invars(k), w.vars_empty)
        SIterList.world = None
        caller_it = SIterList(lambda i: w.init(i))
        p = dict(param)
        kwargs = {'vars': caller_vars, 'it': caller_it, 'rl': rl}
        loc = {'param': p, 'kwargs': kwargs}
        drv = Driver(w, glb)
        body = tree.body[1:] if isinstance(tree.body[0], ast.Expr) and isinstance(getattr(tree.body[0], 'value', None), ast.Constant) else tree.body
        r = drv.run_stmts(body, loc)
        c.require('read_aurel_data returns its result dictionary after the loop over the iterations', z3.BoolVal(r == 'return' and drv.done_outer))
        if r != 'return' or not drv.done_outer:
            return
        out = loc['__return__']
        res, var_end, wit_end = drv.final
        c.require('the returned object is the dictionary built by the loop', z3.BoolVal(out is res))
        ks, cl, cv, cn = res.snapshot()
        q, m = z3.Int('q!e'), z3.Int('m!e')
        c.require('ensures: every returned column has exactly one entry per requested iteration',
                  z3.ForAll([q], z3.Implies(z3.Select(ks, q), z3.Select(cl, q) == w.n)))
        sp = lambda mm, qq: w.spec_present(w.itat(mm), qq)
        c.require('ensures: entry m of column q is the array stored for (m-th requested iteration, q, level), None where nothing is stored',
                  z3.ForAll([q, m], z3.Implies(z3.And(z3.Select(ks, q), m >= 0, m < w.n),
                                               z3.And(z3.Select(z3.Select(cn, q), m) == z3.Not(sp(m, q)),
                                                      z3.Implies(sp(m, q), z3.Select(z3.Select(cv, q), m) == w.spec_val(w.itat(m), q))))))
        c.require("ensures (explicit request): the columns are the requested names without 'it', plus 't'",
                  z3.Implies(z3.Not(w.vars_empty), z3.ForAll([q], z3.Select(ks, q) == w.V0(q))))
        c.require("ensures (vars == []): every name saved at this level in a requested file is returned (and 't'), never 'it'",
                  z3.Implies(w.vars_empty, z3.And(z3.Select(ks, z3.IntVal(ID_T)), z3.Not(z3.Select(ks, z3.IntVal(ID_IT))),
                                                  z3.ForAll([q, m], z3.Implies(z3.And(m >= 0, m < w.n, q != ID_IT, sp(m, q)), z3.Select(ks, q))))))
        c.require('ensures (vars == []): nothing else is returned: every other column has a requested file that holds it at this level',
                  z3.Implies(w.vars_empty, z3.ForAll([q], z3.Implies(z3.And(z3.Select(ks, q), q != ID_T),
                                                                    z3.And(wit_end(q) >= 0, wit_end(q) < w.n, sp(wit_end(q), q))))))
        c.require("frame: the caller's vars list, it list and param are unchanged",
                  z3.BoolVal(not caller_vars.mutated and kwargs['vars'] is caller_vars and kwargs['it'] is caller_it and p == param))
    return explore(run, max_paths=3000)


def _one_config(args):
    rl, label, param = args
    t0 = time.time()
    try:
        paths = read_paths(rl, param)
    except SX.PathAbort as e:
        return (rl, label, 'abort', str(e), 0, time.time() - t0)
    except Exception as e:
        import traceback
        return (rl, label, 'error', f'statement outside the modelled subset: {type(e).__name__}: {e} :: {traceback.format_exc()[-400:]}', 0, time.time() - t0)
    agg = {}
    for res, c in paths:
        for nm, goal, pc in c.obls:
            r = agg.setdefault(nm, dict(valid=0, invalid=[], unknown=[], secs=0.0))
            if (r['invalid'] and not nm.startswith('CANARY')) or len(r['unknown']) >= 2:
                continue
            if time.time() - t0 > 900:
                r['unknown'].append('not attempted: the time budget of this configuration was used up (an instance that is not proved is never counted as discharged)')
                continue
            v, model, secs = prove(pc, goal, 4000 if nm.startswith('CANARY') else 30000)
            r['secs'] += secs
            if nm.startswith('CANARY'):
                # vacuity guard: False must NOT follow from the assumptions
                if v == 'invalid':
                    r['valid'] += 1
                    r['sat'] = r.get('sat', 0) + 1
                elif v == 'valid':
                    r['unknown'].append('VACUOUS: the assumptions of this step are contradictory')
                else:
                    r['valid'] += 1          # solver could not derive False within the budget: not vacuous as far as it can tell
                    r['inconclusive'] = r.get('inconclusive', 0) + 1
                continue
            (r['invalid'].append(str(model)[:400]) if v == 'invalid' else r['unknown'].append(str(model)) if v == 'unknown'
             else r.__setitem__('valid', r['valid'] + 1))
    return (rl, label, 'ok', agg, len(paths), time.time() - t0)


def read_obligations(R):
    import multiprocessing as mp
    import aurel.reading as Rm
    R.under_contract(Rm.read_aurel_data)
    R.trust("requires (read_aurel_data): variable names do not contain the separator ' rl'; dataset suffixes are ' rl=<level>'; "
            "h5py / os contract as modelled (file = map name -> array, read-only)")
    cfgs = [(rl, label, param) for rl in (0, 1)
            for label, param in (('datapath with slash', {'datapath': '/d/'}), ('datapath without slash', {'datapath': '/d'}),
                                 ('ET-style parameters', {'simulation': 'ET', 'simpath': '/s/', 'simname': 'run'}))]
    with mp.Pool(len(cfgs)) as pool:
        results = pool.map(_one_config, cfgs, chunksize=1)
    for rl, label, st, agg, npaths, secs in results:
        tag = f'reading.read_aurel_data[unbounded, rl={rl}, {label}]'
        if st != 'ok':
            R.ob(f'{tag}:{"paths" if st == "abort" else "symbolic-run"}', 'read_aurel_data', 'undecided', 'z3', secs, agg)
            continue
        R.paths += npaths
        if not agg:
            R.ob(f'{tag}:generated-obligations', 'read_aurel_data', 'undecided', 'z3', 0.0, 'no verification condition generated (vacuity guard)')
        for nm, r in agg.items():
            stt = 'refuted' if r['invalid'] else ('undecided' if r['unknown'] else 'discharged')
            R.ob(f'{tag}:{nm}', 'read_aurel_data', stt, 'z3', r['secs'],
                 ('counter-model: ' + r['invalid'][0]) if r['invalid'] else (r['unknown'][0] if r['unknown'] else
                                                                               (f"{r['valid']} path instance(s)" + (f"; assumptions shown satisfiable by a model on {r.get('sat', 0)}, not contradicted within the budget on {r.get('inconclusive', 0)}" if nm.startswith('CANARY') else ''))),
                 [nm] if r['invalid'] else None, replay=SV.native_save_replay)
