from props.tensor import run_tensor
LEVEL = 'proof'


def run(R):
    run_tensor(R, 'C06')
