"""C20 spin-weighted harmonics are orthonormal and sphere extraction inverts synthesis.

O1  the real maths.sYlm runs on exact symbolic angles: cos(theta/2), sin(theta/2) are atoms c, s, e^{i m phi}
    is an atom, factorial/binom are exact, pi is a formal symbol and the prefactor a square root of a
    rational multiple of 1/pi.  The result is an exact trigonometric polynomial.
O2  orthonormality: <s Y_l'm', s Y_lm> = delta delta exactly: the phi integral gives 2 pi delta_mm', the theta
    integral of c^A s^B sin(theta) is a Beta function with integer arguments (rational).
    BOUND: |s| <= 2, l, l' <= L (L = 8 = default lmax in quick, 12 in thorough); every instance exact; the family
    unbounded in l is not proved (labelled bounded).
O3  spin 0: sYlm(0,l,m) == Condon-Shortley Y_lm (associated Legendre via Rodrigues, written in c, s) up to the
    stated phase.
O4  Psi4_lm wiring (real method on stubs): angular grid = cell mid-points partitioning [0,pi] x [0,2pi), weights
    sin(theta) dtheta dphi, phi quadrature exact for |m - m'| <= N_phi, Re/Im of the same Weyl_Psi[4] interpolated
    and recombined, s = -2, result filed under its own radius.
O5  numerical.interpolate: raises iff a target coordinate is outside [grid.min(), grid.max()] (E2, z3); exactness at
    nodes / on trilinear fields is scipy's contract (A4) and is exercised numerically.
O6  decomposition o synthesis = id for band-limited fields: second-order convergence in N_theta (numeric evidence).
"""
import itertools
import math
import time
import types
from fractions import Fraction
import numpy as np
import z3

from engine.e1 import RebMod
from engine import symx as SX
from engine.symx import Z, explore, prove, to_z3

LEVEL = 'other'


class RP:
    """q * pi^k, q rational"""

    def __init__(self, q, k=0):
        self.q, self.k = Fraction(q), k

    @staticmethod
    def co(x):
        if isinstance(x, RP):
            return x
        if isinstance(x, (int, Fraction)):
            return RP(x)
        if isinstance(x, float) and float(x).is_integer():
            return RP(int(x))
        raise TypeError(f'inexact number {x!r} in an exact computation')

    def __mul__(self, o):
        o = RP.co(o)
        return RP(self.q * o.q, self.k + o.k)
    __rmul__ = __mul__

    def __truediv__(self, o):
        o = RP.co(o)
        return RP(self.q / o.q, self.k - o.k)

    def __rtruediv__(self, o):
        return RP.co(o) / self


class SqrtRP:
    """sqrt(q * pi^k)"""

    def __init__(self, rp):
        self.rp = rp


class TP:
    """sum of coeff * c^a s^b e^{i m phi} with rational coefficients"""

    def __init__(self, terms=None):
        self.t = {k: v for k, v in (terms or {}).items() if v != 0}

    def __add__(self, o):
        if isinstance(o, (int, float)) and o == 0:
            return self
        t = dict(self.t)
        for k, v in o.t.items():
            t[k] = t.get(k, 0) + v
        return TP(t)
    __radd__ = __add__

    def __mul__(self, o):
        if isinstance(o, TP):
            t = {}
            for (a1, b1, m1), v1 in self.t.items():
                for (a2, b2, m2), v2 in o.t.items():
                    k = (a1 + a2, b1 + b2, m1 + m2)
                    t[k] = t.get(k, 0) + v1 * v2
            return TP(t)
        if isinstance(o, SqrtRP):
            return Ylm(o, self)
        q = RP.co(o)
        assert q.k == 0
        return TP({k: v * q.q for k, v in self.t.items()})
    __rmul__ = __mul__

    def __pow__(self, n):
        n = int(n)
        if n < 0:
            raise ValueError('negative power of cos/sin(theta/2)')
        r = TP({(0, 0, 0): Fraction(1)})
        for _ in range(n):
            r = r * self
        return r


class Ylm:
    def __init__(self, fac, poly):
        self.fac, self.poly = fac, poly


class Angle:
    def __init__(self, kind, half=False):
        self.kind, self.half = kind, half

    def __truediv__(self, o):
        assert o == 2 and self.kind == 'theta'
        return Angle('theta', True)


class ExactNP:
    pi = RP(1, 1)

    def __getattr__(self, n):        # anything not modelled exactly runs natively (machine semantics)
        import numpy
        return getattr(numpy, n)

    def cos(self, a):
        assert a.kind == 'theta' and a.half
        return TP({(1, 0, 0): Fraction(1)})

    def sin(self, a):
        assert a.kind == 'theta' and a.half
        return TP({(0, 1, 0): Fraction(1)})

    def exp(self, x):
        return TP({(0, 0, x.m): Fraction(1)})

    def sqrt(self, x):
        return SqrtRP(RP.co(x))


class PhiTimes:
    def __init__(self, m):
        self.m = m


class PhiAngle(Angle):
    def __init__(self):
        Angle.__init__(self, 'phi')

    def __rmul__(self, o):       # 1j * m * phi
        return PhiTimes(int(round((o / 1j).real)))


class ExactSC:
    def factorial(self, n):
        return math.factorial(int(n))

    def binom(self, n, k):
        n, k = int(n), int(k)
        return math.comb(n, k) if 0 <= k <= n else 0


def exact_sYlm(mm, s, l, m):
    y = mm.sYlm(s, l, m, Angle('theta'), PhiAngle())
    if isinstance(y, (int, float)) and y == 0:
        return None
    if isinstance(y, SqrtRP):
        return None
    return y


def theta_integral(A, B):
    """int_0^pi cos^A(th/2) sin^B(th/2) sin(th) dth = 2 Gamma(A/2+1) Gamma(B/2+1) / Gamma((A+B)/2+2), A, B even"""
    assert A % 2 == 0 and B % 2 == 0
    a, b = A // 2, B // 2
    return Fraction(2 * math.factorial(a) * math.factorial(b), math.factorial(a + b + 1))


def inner(y1, y2):
    """(rational r, RP under the root) with <y1,y2> = r * sqrt(rp1 rp2) * 2 pi, or 0"""
    tot = Fraction(0)
    for (a1, b1, m1), v1 in y1.poly.t.items():
        for (a2, b2, m2), v2 in y2.poly.t.items():
            if m1 != m2:
                continue          # phi integral: 2 pi delta
            tot += v1 * v2 * theta_integral(a1 + a2, b1 + b2)
    return tot


def legendre_Ylm(l, m):
    """Condon-Shortley Y_lm as polynomial in c = cos(th/2), s = sin(th/2): (unnormalised poly, norm^2 as RP)"""
    import sympy as sp
    x = sp.Symbol('x')
    am = abs(m)
    P = sp.diff((x ** 2 - 1) ** l, x, l + am) / (2 ** l * sp.factorial(l))     # d^m P_l / dx^m
    c, s_ = sp.symbols('c s')
    # P_l^m(cos th) = (-1)^m (sin th)^m d^m P_l/dx^m, cos th = c^2 - s^2, sin th = 2 s c
    expr = sp.expand((-1) ** am * (2 * s_ * c) ** am * P.subs(x, c ** 2 - s_ ** 2))
    norm2 = Fraction(2 * l + 1, 4) * Fraction(math.factorial(l - am), math.factorial(l + am))   # times 1/pi
    poly = sp.Poly(expr, c, s_)
    t = {(int(a), int(b), m): Fraction(int(sp.numer(co)), int(sp.denom(co))) for (a, b), co in poly.terms()}
    sign = 1
    if m < 0:
        sign = (-1) ** am      # Y_{l,-m} = (-1)^m conj(Y_lm)
    return TP({k: v * sign for k, v in t.items()}), norm2


def homogenise(tp, deg):
    """multiply each term by (c^2+s^2)^k to total degree deg (c^2 + s^2 = 1)"""
    out = TP()
    one = TP({(2, 0, 0): Fraction(1), (0, 2, 0): Fraction(1)})
    for (a, b, m), v in tp.t.items():
        k = (deg - a - b)
        assert k >= 0 and k % 2 == 0, (a, b, deg)
        out = out + TP({(a, b, m): v}) * (one ** (k // 2))
    return out


def harmonics_obligations(R, L):
    import aurel.maths as M
    R.under_contract(M.sYlm)
    R.under_contract(M.factorial)
    mm = RebMod(M, {'np': ExactNP(), 'sc': ExactSC()})
    t0 = time.time()
    bad = [n for n in range(0, 21) if M.factorial(n) != math.factorial(n)]
    R.ob('maths.factorial:n! for 0 <= n <= 20', 'factorial', 'refuted' if bad else 'bounded-ok', 'exact', time.time() - t0,
         f'wrong for n in {bad}' if bad else '', bad or None, bounded='n <= 20')
    Y = {}
    t0 = time.time()
    undecided = []
    for s in range(-2, 3):
        for l in range(abs(s), L + 1):
            for m in range(-l, l + 1):
                try:
                    Y[s, l, m] = exact_sYlm(mm, s, l, m)
                except Exception as e:
                    undecided.append(f'sYlm({s},{l},{m}): {type(e).__name__}: {e}')
    if undecided:
        R.ob('maths.sYlm:exact symbolic execution', 'sYlm', 'undecided', 'exact-trig', time.time() - t0, '; '.join(undecided[:3]))
        return
    nbad, nchk = [], 0
    for s in range(-2, 3):
        for m in range(-L, L + 1):
            ls = [l for l in range(max(abs(s), abs(m)), L + 1)]
            for l1, l2 in itertools.combinations_with_replacement(ls, 2):
                y1, y2 = Y[s, l1, m], Y[s, l2, m]
                nchk += 1
                if y1 is None or y2 is None:
                    nbad.append(f's={s} l={l1 if y1 is None else l2} m={m}: harmonic is identically 0')
                    continue
                r = inner(y1, y2)
                if l1 != l2:
                    if r != 0:
                        nbad.append(f's={s} m={m}: <l={l1}|l={l2}> != 0')
                else:
                    f2 = y1.fac.rp            # fac^2 = q / pi
                    val = r * f2.q * 2        # * 2 pi * pi^-1
                    if f2.k != -1 or val != 1:
                        nbad.append(f's={s} l={l1} m={m}: norm^2 = {val} pi^{f2.k + 1}')
    R.bounded.append(dict(function='aurel.maths.sYlm', bound=f'|s| <= 2, l <= {L}: {len(Y)} harmonics, {nchk} inner products, each exact'))
    R.ob(f'maths.sYlm:orthonormal over the sphere for |s|<=2, l,l\'<={L} (different m orthogonal by the phi integral)', 'sYlm',
         'refuted' if nbad else 'bounded-ok', 'exact-trig', time.time() - t0, '; '.join(nbad[:5]), nbad[:8] or None,
         bounded=f'l <= {L}', replay=native_quadrature_replay)
    # spin 0
    t0 = time.time()
    bad0 = []
    phases = set()
    for l in range(0, min(L, 6) + 1):
        for m in range(-l, l + 1):
            y = Y[0, l, m]
            ref, norm2 = legendre_Ylm(l, m)
            if y is None:
                bad0.append(f'l={l} m={m} vanishes')
                continue
            deg = 2 * l
            a = homogenise(y.poly, deg).t
            b = homogenise(ref, deg).t
            # compare fac^2 * poly^2 ratio and sign: y = fac * poly, Y_lm = sqrt(norm2/pi) * ref
            ratio = None
            ok = set(a) == set(b)
            if ok:
                k0 = next(iter(a))
                ratio = a[k0] / b[k0]
                ok = all(a[k] == ratio * b[k] for k in a) and y.fac.rp.k == -1 and ratio * ratio * y.fac.rp.q == norm2
            if not ok:
                bad0.append(f'l={l} m={m}: not proportional to Y_lm with unit modulus')
            else:
                phases.add((m % 2, 1 if ratio > 0 else -1))
    consistent = all((p == 1) for _, p in phases) or all((p == (1 if par == 0 else -1)) for par, p in phases)
    R.ob('maths.sYlm:spin 0 reduces to the ordinary Y_lm (Condon-Shortley) up to a phase +1 or (-1)^m, l <= 6', 'sYlm',
         'refuted' if bad0 or not consistent else 'bounded-ok', 'exact-trig', time.time() - t0,
         '; '.join(bad0[:4]) or ('' if consistent else f'inconsistent phases {sorted(phases)}'), bad0[:6] or (None if consistent else ['phase']),
         bounded='l <= 6')
    R.notes.append(f'spin-0 phase relative to Condon-Shortley: {sorted(phases)} (parity of m, sign)')


def psi4lm_native_replay(o=None):
    """the real AurelCore.Psi4_lm on an axisymmetric trilinear field (trilinear interpolation is exact for it): every m != 0
    mode must vanish and a_20 must approach its analytic value; grid sizes taken from the refuted configurations"""
    import re
    import warnings
    import aurel
    sizes = sorted({int(m) for m in re.findall(r'grid \((\d+),', getattr(o, 'detail', '') or '')})[:4] or [9, 16, 30, 31]
    lines, bad = [], False
    c0, c1, L = 1.3 - 0.4j, 0.25 + 0.7j, 8.0
    with warnings.catch_warnings():
        warnings.simplefilter('ignore')
        for N in sizes:
            if N > 120:
                continue
            par = {'Nx': N, 'Ny': N + 1, 'Nz': N + 2, 'xmin': -L / 2, 'ymin': -L / 2, 'zmin': -L / 2, 'dx': L / (N - 1), 'dy': L / N, 'dz': L / (N + 1)}
            fd = aurel.FiniteDifference(par, verbose=False)
            rel = aurel.AurelCore(fd, verbose=False, lmax=4, extract_radii=[3.0])
            field = c0 + c1 * fd.z
            rel.data['Weyl_Psi4r'], rel.data['Weyl_Psi4i'] = np.real(field), np.imag(field)
            alm = rel['Psi4_lm'][3.0]
            a20 = c0 * np.sqrt(15 / (32 * np.pi)) * 8 * np.pi / 3
            leak = max(abs(v) for (el, m), v in alm.items() if m != 0)
            rel20 = abs(alm[2, 0] - a20) / abs(a20)
            bound = 2.0 * (np.pi / (N + 1)) ** 2 / 12 + 1e-12
            lines.append(f'real Psi4_lm, grid {N}x{N + 1}x{N + 2}, Psi4 = c0 + c1 z: max |a_lm, m != 0| = {leak:.3e}, relative error of a_20 = {rel20:.3e} (mid-point bound {bound:.1e})')
            if leak > 1e-10 or rel20 > bound:
                bad = True
    return bad, '\n'.join(lines)


def psi4lm_obligations(R):
    import aurel.core as C
    import aurel.maths as M
    R.under_contract(C.AurelCore.Psi4_lm)
    R.under_contract(M.sYlm_coefficients)
    R.under_contract(M.sYlm_reconstruct)
    t0 = time.time()
    bad = []
    ncfg = 0
    cfgs = list(itertools.product([(4, 5, 6), (9, 9, 9), (12, 7, 30), (3, 3, 3)], (2, 8, 11)))
    # every angular resolution N_theta = 3..300 (the number of sample points is computed from it: a size-dependent rounding in
    # that computation shows at isolated values only), through the grid size and through lmax
    cfgs += [((n, n + 1, n + 2), 2) for n in range(3, 301)] + [((5, 4, 6), n - 1) for n in (30, 98, 171, 172, 200, 256)]
    for (Nx, Ny, Nz), lmax in cfgs:
        ncfg += 1
        calls = []

        class Maths:
            @staticmethod
            def sYlm_coefficients(s, lmax_, f, theta, phi, w, dphi):
                calls.append(dict(s=s, lmax=lmax_, f=f, theta=theta, phi=phi, w=w, dphi=dphi))
                return ('coeffs', len(calls) - 1)

        class Num:
            @staticmethod
            def interpolate(val, grid, pts, method='linear'):
                return Tag(('interp', val, tuple(id(g) for g in grid), pts, method))

        class Tag:
            def __init__(self, t): self.t = t
            def __add__(self, o): return Tag(('add', self, o))
            def __rmul__(self, o): return Tag(('mul', o, self))

        class NPx:
            def __getattr__(self, n): return getattr(np, n)
            def real(self, x): return ('re', x)
            def imag(self, x): return ('im', x)
        g = dict(C.__dict__)
        g.update(maths=Maths, numerical=Num, np=NPx())
        fn = types.FunctionType(C.AurelCore.Psi4_lm.__code__, g)

        class FD:
            xarray, yarray, zarray = np.arange(Nx) * 1.0, np.arange(Ny) * 1.0, np.arange(Nz) * 1.0

            @staticmethod
            def spherical_to_cartesian(r, th, ph):
                return ('pts', r, th, ph)
        FD.Nx, FD.Ny, FD.Nz = Nx, Ny, Nz
        psi4 = object()

        class Self:
            fd = FD
            lmax_ = lmax
            center = (0.5, 0.25, 0.0)
            extract_radii = [1.0, 2.5]
            interp_method = 'cubic'
            def myprint(self, m): pass
            def __getitem__(self, k):
                assert k == 'Weyl_Psi'
                return [None, None, None, None, psi4]
        slf = Self()
        slf.lmax = lmax
        out = fn(slf)
        ctx = f'grid {(Nx, Ny, Nz)}, lmax={lmax}'
        if set(out) != {1.0, 2.5} or len(calls) != 2:
            bad.append(f'{ctx}: radii keys {list(out)}')
            continue
        for ri, r in enumerate([1.0, 2.5]):
            c = calls[out[r][1]]
            Nt = max(min(Nx, Ny, Nz), lmax + 1)
            th, ph = c['theta'], c['phi']
            if th.shape != (Nt + 1, 2 * Nt + 1):
                bad.append(f'{ctx}: angular grid shape {th.shape}')
                continue
            dth = math.pi / (Nt + 1)
            dph = 2 * math.pi / (2 * Nt + 1)
            ok = (np.allclose(th[:, 0], (np.arange(Nt + 1) + 0.5) * dth) and np.allclose(ph[0], (np.arange(2 * Nt + 1) + 0.5) * dph)
                  and np.isclose(c['dphi'], dph) and np.allclose(c['w'], np.sin(th) * dth) and c['s'] == -2 and c['lmax'] == lmax)
            if not ok:
                bad.append(f'{ctx}: quadrature is not the mid-point partition of [0,pi]x[0,2pi) with weights sin(theta) dtheta dphi, s=-2, lmax')
            f = c['f']
            try:
                _, re_part, rest = f.t
                _, onej, im_part = rest.t
                (_, vre, gre, pre, mre), (_, vim, gim, pim, mim) = re_part.t, im_part.t
                wired = (vre == ('re', psi4) and vim == ('im', psi4) and onej == 1j and mre == mim == 'cubic' and gre == gim
                         and pre[1] == r and pim[1] == r and pre[2] is th and pre[3] is ph)
            except Exception:
                wired = False
            if not wired:
                bad.append(f'{ctx}: Re/Im of Weyl_Psi[4] are not interpolated onto the sphere of radius {r} and recombined as re + i im')
            # phi quadrature exact for |k| <= N_phi
            if Nt > 40 and Nt % 16:
                continue
            Np = 2 * Nt
            ks = np.arange(-Np, Np + 1)
            sums = np.array([np.sum(np.exp(1j * k * ph[0])) * c['dphi'] for k in ks])
            expct = np.where(ks == 0, 2 * math.pi, 0.0)
            if not np.allclose(sums, expct, atol=1e-9):
                bad.append(f'{ctx}: phi quadrature not exact for |m-m\'| <= N_phi')
    R.bounded.append(dict(function='AurelCore.Psi4_lm', bound=f'{ncfg} (grid size, lmax) configurations; field values opaque'))
    R.ob('core.Psi4_lm:sphere grid, weights, Re/Im recombination, s=-2, one entry per radius', 'Psi4_lm', 'refuted' if bad else 'bounded-ok',
         'stub-trace', time.time() - t0, '; '.join(bad[:4]), bad[:6] or None, bounded=f'{ncfg} configurations', replay=psi4lm_native_replay)


def interpolate_obligations(R):
    import aurel.numerical as N
    R.under_contract(N.interpolate)

    class Coord:
        def __init__(self, name):
            self.name = name
            self.lo, self.hi = z3.Real(name + '_min'), z3.Real(name + '_max')
            self.shape = ('shape-of', name)

        def min(self): return Z(self.lo)
        def max(self): return Z(self.hi)
        def flatten(self): return ('flat', self.name)

    class NPs:
        def stack(self, xs, axis=0): return ('stack', tuple(xs), axis)

    made = {}

    class Interp:
        def __init__(self, grid, val, **kw): made['args'] = (grid, val, kw)
        def __call__(self, pts):
            made['pts'] = pts
            return self
        def reshape(self, shp):
            made['shape'] = shp
            return ('result', shp)
    scipy_ns = types.SimpleNamespace(interpolate=types.SimpleNamespace(RegularGridInterpolator=Interp))
    g = dict(N.__dict__)
    g.update(np=NPs(), scipy=scipy_ns)
    fn = types.FunctionType(N.interpolate.__code__, g, 'interpolate', N.interpolate.__defaults__)

    def run():
        c = SX.ctx()
        grids = [Coord(f'g{i}') for i in range(3)]
        tg = [Coord(f't{i}') for i in range(3)]
        for q in grids + tg:
            c.assume(q.lo <= q.hi)
        inside = z3.And(*[z3.And(t.lo >= gq.lo, t.hi <= gq.hi) for gq, t in zip(grids, tg)])
        try:
            res = fn('VAL', tuple(grids), tuple(tg), method='linear')
            raised = False
        except ValueError:
            raised = True
        c.require('raises ValueError iff some target coordinate lies outside [grid.min(), grid.max()]',
                  z3.BoolVal(raised) == z3.Not(inside))
        if not raised:
            ok = (made.get('args') and made['args'][1] == 'VAL' and made['args'][2].get('method') == 'linear'
                  and made.get('shape') == tg[0].shape and made['pts'][0] == 'stack' and made['pts'][2] == -1
                  and made['pts'][1] == tuple(('flat', t.name) for t in tg))
            c.require('inside the grid: result = RegularGridInterpolator(grid, val, method)(stacked targets) in the target shape',
                      z3.BoolVal(bool(ok)))
    t0 = time.time()
    paths = explore(run)
    agg = {}
    for res, c in paths:
        for nm, goal, pc in c.obls:
            v, model, secs = prove(pc, goal)
            agg.setdefault(nm, []).append((v, str(model)[:300]))
    for nm, rs in agg.items():
        inv = [m for v, m in rs if v == 'invalid']
        unk = [m for v, m in rs if v == 'unknown']
        R.ob(f'numerical.interpolate:{nm}', 'interpolate', 'refuted' if inv else ('undecided' if unk else 'discharged'), 'z3',
             (time.time() - t0) / len(agg), inv[0] if inv else (unk[0] if unk else f'{len(rs)} path(s)'), [nm] if inv else None)
    # scipy's contract (A4), exercised: exact at nodes and on trilinear fields
    t0 = time.time()
    import aurel
    rng = np.random.default_rng(0)
    gx, gy, gz = np.linspace(-1, 1, 7), np.linspace(0, 3, 5), np.linspace(2, 4, 9)
    X, Y_, Z_ = np.meshgrid(gx, gy, gz, indexing='ij')
    val = rng.standard_normal(X.shape)
    tri = 1 + 2 * X - Y_ + 0.5 * Z_ + X * Y_ - 2 * Y_ * Z_ + X * Y_ * Z_
    pts = tuple(rng.uniform(lo, hi, size=(4, 3)) for lo, hi in ((-1, 1), (0, 3), (2, 4)))
    try:
        at_nodes = aurel.numerical.interpolate(val, (gx, gy, gz), (X, Y_, Z_))
        got = aurel.numerical.interpolate(tri, (gx, gy, gz), pts)
        exp = 1 + 2 * pts[0] - pts[1] + 0.5 * pts[2] + pts[0] * pts[1] - 2 * pts[1] * pts[2] + pts[0] * pts[1] * pts[2]
        ok = np.allclose(at_nodes, val) and np.allclose(got, exp)
    except ValueError:
        ok = False      # refuses points that lie on the grid (nodes on the boundary are inside the grid)
    R.ob('numerical.interpolate:exact at grid nodes and on trilinear fields (scipy contract, exercised)', 'interpolate',
         'numeric-ok' if ok else 'refuted', 'float64', time.time() - t0, '' if ok else 'mismatch', None if ok else ['scipy'],
         bounded='numeric: one random grid')


def synthesis_obligations(R):
    """decomposition o synthesis = id for band-limited fields on Psi4_lm's quadrature: 2nd-order convergence"""
    import aurel.maths as M
    t0 = time.time()
    rng = np.random.default_rng(3)
    s, lmax = -2, 4
    alm = {(l, m): (rng.standard_normal() + 1j * rng.standard_normal()) if l >= 2 else 0.0 for l in range(lmax + 1) for m in range(-l, l + 1)}
    errs = []
    for Nt in (12, 24, 48):
        th = np.pi * np.arange(0.5, Nt + 1.5, 1) / (Nt + 1)
        ph = 2 * np.pi * np.arange(0.5, 2 * Nt + 1.5, 1) / (2 * Nt + 1)
        T, P = np.meshgrid(th, ph, indexing='ij')
        f = M.sYlm_reconstruct(s, lmax, alm, T, P)
        direct = sum(alm[l, m] * M.sYlm(s, l, m, T, P) for l in range(2, lmax + 1) for m in range(-l, l + 1))
        back = M.sYlm_coefficients(s, lmax, f, T, P, np.sin(T) * (th[1] - th[0]), ph[1] - ph[0])
        errs.append((np.max(np.abs(f - direct)), max(abs(back[k] - alm[k]) for k in alm if k[0] >= 2)))
    rate = math.log2(errs[0][1] / errs[1][1]), math.log2(errs[1][1] / errs[2][1])
    ok = all(e[0] < 1e-12 for e in errs) and rate[0] > 1.7 and rate[1] > 1.7 and errs[2][1] < 5e-3
    R.numeric.append(dict(obligation='coefficients(reconstruct(a)) -> a', errors=[e[1] for e in errs], rates=rate))
    R.ob('maths.sYlm_coefficients o sYlm_reconstruct = id on band-limited fields, converging at second order in N_theta', 'sYlm_coefficients',
         'numeric-ok' if ok else 'refuted', 'float64', time.time() - t0, f'errors {[f"{e[1]:.2e}" for e in errs]}, observed orders {rate[0]:.2f}, {rate[1]:.2f}',
         None if ok else ['convergence'], bounded='numeric: N_theta in {12,24,48}, lmax=4, s=-2')


def linearity_obligations(R):
    """sYlm_coefficients is a linear functional of the samples and does not look at how they are stored: for every spin
    weight, real-dtype samples give the same coefficients as the same samples stored as complex numbers, integer-dtype
    samples likewise, and a(f + i g) = a(f) + i a(g).  (A shortcut for 'real input' that is only valid for spin 0 breaks this.)"""
    import aurel.maths as M
    t0 = time.time()
    rng = np.random.default_rng(11)
    Nt = 10
    th = np.pi * np.arange(0.5, Nt + 1.5, 1) / (Nt + 1)
    ph = 2 * np.pi * np.arange(0.5, 2 * Nt + 1.5, 1) / (2 * Nt + 1)
    T, P = np.meshgrid(th, ph, indexing='ij')
    dth, dph = np.sin(T) * (th[1] - th[0]), ph[1] - ph[0]
    bad = []
    worst = 0.0
    for s_ in (-2, -1, 0, 1, 2):
        lmax = 3
        f = rng.standard_normal(T.shape)
        g = rng.standard_normal(T.shape)
        fi = rng.integers(-5, 6, size=T.shape)
        def co(arr, what):
            # an exception raised by the library for samples of some dtype is a verdict on the library, not a failure of this check
            try:
                return M.sYlm_coefficients(s_, lmax, arr.copy(), T.copy(), P.copy(), dth.copy(), dph)
            except Exception as e:
                bad.append(f's={s_}: raises {type(e).__name__} for {what} samples: {str(e)[:100]}')
                return None
        a_f, a_fc, a_g = co(f, 'real-dtype'), co(f.astype(complex), 'complex'), co(g.astype(complex), 'complex')
        a_fg, a_i, a_ic = co(f + 1j * g, 'complex'), co(fi, 'integer-dtype'), co(fi.astype(complex), 'complex')
        if any(a is None for a in (a_f, a_fc, a_g, a_fg, a_i, a_ic)):
            continue
        for k in a_fc:
            d1 = abs(a_f[k] - a_fc[k])
            d2 = abs(a_fg[k] - (a_fc[k] + 1j * a_g[k]))
            d3 = abs(a_i[k] - a_ic[k])
            worst = max(worst, d1, d2, d3)
            if d1 > 1e-10:
                bad.append(f's={s_}, (l,m)={k}: real-dtype samples give {a_f[k]:.6g}, the same samples stored as complex give {a_fc[k]:.6g}')
            if d2 > 1e-10:
                bad.append(f's={s_}, (l,m)={k}: a(f + i g) != a(f) + i a(g)')
            if d3 > 1e-10:
                bad.append(f's={s_}, (l,m)={k}: integer-dtype samples give {a_i[k]:.6g}, as complex {a_ic[k]:.6g}')
    R.numeric.append(dict(obligation='sYlm_coefficients linear / storage independent', residual=worst))
    R.ob('maths.sYlm_coefficients:linear in the samples and independent of their dtype (real, integer, complex), every spin weight', 'sYlm_coefficients',
         'refuted' if bad else 'numeric-ok', 'float64', time.time() - t0, '; '.join(bad[:3]) or f'largest difference {worst:.1e}', bad[:5] or None,
         bounded='numeric: random samples on an 11 x 21 grid, |s| <= 2, l <= 3', replay=lambda o: (bool(bad), '; '.join(bad[:3]) or 'no difference'))


def native_quadrature_replay(o=None):
    import aurel.maths as M
    Nt = 200
    th = np.pi * (np.arange(Nt) + 0.5) / Nt
    ph = 2 * np.pi * (np.arange(2 * Nt) + 0.5) / (2 * Nt)
    T, P = np.meshgrid(th, ph, indexing='ij')
    w = np.sin(T) * (np.pi / Nt) * (np.pi / Nt)
    worst, where = 0.0, None
    for s in (-2, -1, 0, 1, 2):
        for l1 in range(abs(s), 6):
            for l2 in range(abs(s), 6):
                for m in range(-min(l1, l2), min(l1, l2) + 1):
                    v = np.sum(np.conj(M.sYlm(s, l1, m, T, P)) * M.sYlm(s, l2, m, T, P) * w)
                    d = abs(v - (1.0 if l1 == l2 else 0.0))
                    if d > worst:
                        worst, where = d, (s, l1, l2, m)
    return worst > 1e-3, f'numerical quadrature (200 x 400 mid-points) of <sY_l1m|sY_l2m>, l <= 5: largest deviation from delta {worst:.2e} at (s,l1,l2,m)={where}'


def factorial_obligation(R):
    """maths.factorial against n! on its WHOLE finite domain: every n with a finite binary64 factorial (0..170), the
    real function with the real scipy; beyond 170 the result must not be a finite wrong number.  (The exact execution
    of sYlm replaces scipy by exact integers, so the helper's own machine arithmetic is pinned down here.)"""
    import aurel.maths as M
    R.under_contract(M.factorial)
    t0 = time.time()
    bad = []
    for n in list(range(0, 171)):
        try:
            r = M.factorial(n)
            ex = math.factorial(n)
            fr = Fraction(float(r))
            if abs(fr - ex) > Fraction(ex) * Fraction(4, 2 ** 52):
                bad.append(f'factorial({n}) = {float(r)!r}, n! = {float(ex)!r}')
        except Exception as e:
            bad.append(f'factorial({n}) raised {type(e).__name__}: {e}')
    for n in (171, 180, 250):
        try:
            r = float(M.factorial(n))
            if math.isfinite(r):
                bad.append(f'factorial({n}) = {r!r}: a finite value although n! exceeds binary64')
        except OverflowError:
            pass
        except Exception as e:
            bad.append(f'factorial({n}) raised {type(e).__name__}: {e}')

    def replay(o):
        import numpy as np
        if not bad:
            return False, 'factorial agrees with n! on 0..170'
        # through the public harmonics: normalisation of a high mode against exact integers
        l = m = None
        for cand in range(2, 90):
            if any(f'factorial({k})' in b for b in bad for k in (2 * cand, 2 * cand - 1, cand)):
                l = m = cand
                break
        msg = bad[0]
        if l is not None:
            th, ph = 0.7, 0.3
            got = M.sYlm(0, l, m, th, ph)
            exact = (-1) ** m * math.sqrt((2 * l + 1) / (4 * math.pi) * float(Fraction(1, math.factorial(2 * l)))) * math.factorial(2 * l) / (2 ** l * math.factorial(l)) * math.sin(th) ** l
            msg += f'; sYlm(0,{l},{m},0.7,0.3) = {got!r}, |Y_ll| from exact integers = {exact!r}'
        return True, msg
    R.ob('maths.factorial:== n! within 4 ulp for every n in 0..170 (the whole finite domain), not finite beyond', 'factorial',
         'refuted' if bad else 'discharged', 'exhaustive-domain', time.time() - t0, '; '.join(bad[:3]) or '171 + 3 arguments', bad[:5] or None, replay=replay)


def run(R):
    from engine.canary import run_canaries
    run_canaries(R, ('symx',))
    R.assume('A1', 'A4', 'A6')
    R.trust('scipy RegularGridInterpolator: exact at nodes, exact on multilinear fields for method="linear" (A4, exercised numerically)')
    R.trust('theta quadrature: the mid-point rule is second-order accurate for smooth integrands (observed, not proved)')
    L = 8 if R.tier == 'quick' else 12
    factorial_obligation(R)
    harmonics_obligations(R, L)
    psi4lm_obligations(R)
    interpolate_obligations(R)
    synthesis_obligations(R)
    linearity_obligations(R)
    R.extra['explanation'] = (f'exact trigonometric-polynomial execution of the real sYlm: orthonormality for |s|<=2, l<={L} (every instance exact, '
                              'family in l bounded); spin-0 reduction; Psi4_lm wiring on stubs; interpolate bounds check by z3; synthesis/decomposition '
                              'round trip numeric')
