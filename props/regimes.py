"""Native metamorphic obligations on the real AurelCore that complement the per-function obligations, which work at one generic
point and therefore say nothing about *how the arrays are laid out or how large the grid is*:

  layout     : the same data handed over C-ordered, Fortran-ordered (e.g. the transpose of data stored z-fastest) and as
               non-contiguous strided views gives the same value for every key (ravel()/reshape() are views only for
               C-contiguous arrays -- writes through them are lost otherwise);
  grid shape : data that do not depend on one coordinate give results that do not depend on it either, on grids whose extent
               along that coordinate is 31..34, 64, 65, 129 (2^n + 1 and neighbours) and on a grid of more than 2^15 points --
               a loop over slabs / chunks of the grid with a wrong count leaves planes unwritten.

Both are bounded (a few grids) and labelled so; they are decided on the unmodified library through its public API."""
import time
import warnings
import numpy as np


# no clean-up event during a run: which entries are evicted depends on sys.getsizeof of the stored arrays (views own no data), and
# off-shell data give different values on the two sides of an "is it cached" test -- both legitimate, neither is what is compared
NO_EVICTION = dict(clear_cache_every_nbr_calc=10 ** 6, memory_threshold_inGB=1e6)


def _fields(cx, cy, cz):
    one = np.ones_like(cx, dtype=float)
    gam = np.array([[1.3 + 0.1 * cx * cx + 0.05 * cy, 0.05 * cy + 0.02 * cz * cx, 0.02 * cz], [0.05 * cy + 0.02 * cz * cx, 1.1 + 0.1 * cz * cz, 0.03 * cx + 0.01 * cy * cz],
                    [0.02 * cz, 0.03 * cx + 0.01 * cy * cz, 1.2 + 0.1 * cy * cy + 0.03 * cx]])
    K = np.array([[0.1 * cx + 0.02 * cy * cz, 0.03 * cz, 0.02 * cz * cy], [0.03 * cz, 0.2 * one + 0.05 * cx * cy, 0.04 * cx], [0.02 * cz * cy, 0.04 * cx, 0.3 * cy + 0.02 * cz]])
    vel = np.array([0.2 + 0.05 * cy, -0.1 + 0.05 * cz, 0.15 + 0.03 * cx])
    W = 1 / np.sqrt(1 - np.einsum('ij...,i...,j...->...', gam, vel, vel))
    return dict(gammadown3=gam, Kdown3=K, alpha=1.2 + 0.1 * cx + 0.05 * cy * cz, betaup3=np.array([0.1 * cx + 0.02 * cz, 0.05 * cz * cy, 0.2 * one + 0.03 * cy]),
                rho0=1 + 0.1 * np.cos(cx) + 0.05 * cy * cz, press=0.2 * (1 + 0.1 * np.cos(cx + cy)) * (1 + 0.3 * np.sin(cz)), eps=0.3 + 0.05 * cz + 0.02 * cx,
                velup3=vel, w_lorentz=W)


def _as_array(v):
    if isinstance(v, dict) or callable(v):
        return None
    try:
        return np.asarray(v, dtype=complex)
    except (TypeError, ValueError):
        return None


def _relayout(a, how):
    a = np.asarray(a)
    if how == 'F':
        return np.asfortranarray(a)
    if how == 'T':          # what `.T` of data stored with the grid axes reversed (z fastest ... tensor indices slowest) looks like
        return np.ascontiguousarray(a.T).T
    if how == 'S':          # every second element of a twice as long last axis: non-contiguous in both orders
        big = np.repeat(a, 2, axis=-1)
        return big[..., ::2]
    return np.ascontiguousarray(a)


def layout_cases(keys):
    import aurel
    bad, n = [], 0
    par = dict(Nx=8, Ny=7, Nz=6, xmin=-0.8, ymin=-0.7, zmin=-0.5, dx=0.2, dy=0.2, dz=0.2)
    with warnings.catch_warnings():
        warnings.simplefilter('ignore')
        fd = aurel.FiniteDifference(par, boundary='no boundary', fd_order=4, verbose=False)
        ins = _fields(fd.x, fd.y, fd.z)

        def mk(how):
            rel = aurel.AurelCore(fd, verbose=False, **NO_EVICTION)
            for k, v in ins.items():
                rel.data[k] = _relayout(v, how).copy(order='K') if how in ('F', 'T') else _relayout(v, how)
            rel.freeze_data()
            return rel
        ref = mk('C')
        for how, what in (('F', 'Fortran-ordered'), ('T', 'the transpose of z-fastest data'), ('S', 'non-contiguous strided views')):
            rel = mk(how)
            for k in keys:
                try:
                    a, b = _as_array(ref[k]), _as_array(rel[k])
                except Exception as e:
                    bad.append(f'{k}: raised {type(e).__name__}: {str(e)[:80]} with inputs given as {what}')
                    continue
                if a is None or b is None:
                    continue
                n += 1
                if a.shape != b.shape or not np.nanmax(np.abs(a - b), initial=0.0) <= 1e-7 * (float(np.nanmax(np.abs(a), initial=0.0)) + 1e-300):
                    err = '' if a.shape != b.shape else f' (max |difference| {np.nanmax(np.abs(a - b)):.3g}, scale {np.nanmax(np.abs(a)):.3g})'
                    bad.append(f'{k}: inputs given as {what} give a different value than the same data C-ordered{err}')
    return bad, n


GRIDS_QUICK = [((33, 6, 6), 0), ((65, 6, 7), 0), ((6, 33, 7), 1), ((7, 6, 65), 2), ((20, 41, 41), 0)]
GRIDS_THOROUGH = GRIDS_QUICK + [((31, 6, 6), 0), ((32, 6, 6), 0), ((34, 6, 6), 0), ((64, 6, 6), 0), ((129, 6, 6), 0), ((6, 65, 6), 1), ((6, 7, 33), 2), ((41, 20, 41), 1), ((48, 28, 28), 0)]


def position_dependent(keys, ax):
    """keys whose value depends on where the grid sits along the axis (angular momentum, quantities of a position-dependent
    tetrad, sphere extraction): found by evaluating the same field arrays on two grids that differ by a translation only"""
    import aurel
    out = set()
    vals = []
    for shift in (0.0, 0.37):
        mins = [-0.15, -0.15, -0.15]
        mins[ax] += shift
        par = dict(Nx=6, Ny=6, Nz=6, xmin=mins[0], ymin=mins[1], zmin=mins[2], dx=0.05, dy=0.05, dz=0.05)
        fd = aurel.FiniteDifference(par, boundary='no boundary', fd_order=4, verbose=False)
        if not vals:
            base = [fd.x.copy(), fd.y.copy(), fd.z.copy()]
            base[ax] = np.full(fd.x.shape, 0.3)
        rel = aurel.AurelCore(fd, verbose=False, **NO_EVICTION)
        rel.tetrad = 'orthonormal'
        for k, v in _fields(*base).items():
            rel.data[k] = v
        rel.freeze_data()
        d = {}
        for k in keys:
            try:
                d[k] = _as_array(rel[k])
            except Exception:
                d[k] = None
        vals.append(d)
    for k in keys:
        a, b = vals[0][k], vals[1][k]
        if a is None or b is None or a.shape != b.shape or not np.allclose(a, b, rtol=1e-9, atol=1e-12, equal_nan=True):
            out.add(k)
    return out


def gridshape_cases(keys, grids):
    import aurel
    bad, n = [], 0
    with warnings.catch_warnings():
        warnings.simplefilter('ignore')
        posdep = {ax: position_dependent(keys, ax) for ax in {g[1] for g in grids}}
        for shape, ax in grids:
            par = dict(Nx=shape[0], Ny=shape[1], Nz=shape[2], xmin=-0.4, ymin=-0.3, zmin=-0.5, dx=0.05, dy=0.05, dz=0.05)
            fd = aurel.FiniteDifference(par, boundary='no boundary', fd_order=4, verbose=False)
            c = [fd.x, fd.y, fd.z]
            c[ax] = np.full(fd.x.shape, 0.3)              # nothing depends on this coordinate
            rel = aurel.AurelCore(fd, verbose=False, **NO_EVICTION)
            rel.tetrad = 'orthonormal'                    # the default tetrad is built from the position vector
            for k, v in _fields(*c).items():
                rel.data[k] = v
            rel.freeze_data()
            for k in keys:
                if k in posdep[ax]:
                    continue
                try:
                    a = _as_array(rel[k])
                except Exception as e:
                    bad.append(f'{k}: raised {type(e).__name__}: {str(e)[:80]} on a {shape} grid')
                    continue
                if a is None or a.ndim < 3 or a.shape[-3:] != tuple(shape):
                    continue
                n += 1
                m = np.moveaxis(a, a.ndim - 3 + ax, 0)
                scale = float(np.nanmax(np.abs(m))) or 1.0
                dev = np.nanmax(np.abs(m - m[:1]).reshape(m.shape[0], -1), axis=1) / scale
                if not np.all(dev <= 1e-7):
                    planes = [int(i) for i in np.nonzero(~(dev <= 1e-7))[0][:6]]
                    bad.append(f'{k} on a {shape[0]}x{shape[1]}x{shape[2]} grid: the data do not depend on {"xyz"[ax]}, but the result differs on the '
                               f'{"xyz"[ax]}-planes {planes} from plane 0 (relative deviation {float(np.nanmax(dev)):.3g})')
    return bad, n


def regime_obligations(R, keys, prefix='core'):
    """keys: the quantities of the property at hand"""
    import aurel.core as Cm
    keys = [k for k in dict.fromkeys(keys) if isinstance(k, str) and hasattr(Cm.AurelCore, k) and k in Cm.descriptions]
    if not keys:
        return
    t0 = time.time()
    bad, n = layout_cases(keys)
    R.bounded.append(dict(function='aurel.core.AurelCore (memory layout of the inputs)', bound=f'{len(keys)} keys on one 8x7x6 grid; C-ordered vs Fortran-ordered, transposed, strided inputs'))
    R.ob(f'{prefix}.*:the value does not depend on the memory layout of the input arrays (C / Fortran order, transposed, non-contiguous views)', keys[0],
         'refuted' if bad else ('bounded-ok' if n else 'undecided'), 'bounded-native', time.time() - t0, '; '.join(bad[:4]) or f'{n} comparisons', bad[:6] or None,
         bounded='one grid, 3 layouts', replay=lambda o: (lambda b: (bool(b[0]), '; '.join(b[0][:4]) or 'no difference'))(layout_cases(keys)))
    t0 = time.time()
    grids = GRIDS_QUICK if R.tier == 'quick' else GRIDS_THOROUGH
    bad, n = gridshape_cases(keys, grids)
    R.bounded.append(dict(function='aurel.core.AurelCore (grid extent)', bound=f'{len(keys)} keys on grids {[g for g, _ in grids]}: data independent of one coordinate'))
    R.ob(f'{prefix}.*:data independent of one coordinate give results independent of it on grids of extent 33, 65 (2^n + 1) and of more than 2^15 points', keys[0],
         'refuted' if bad else ('bounded-ok' if n else 'undecided'), 'bounded-native', time.time() - t0, '; '.join(bad[:4]) or f'{n} key evaluations', bad[:6] or None,
         bounded=f'{len(grids)} grids', replay=lambda o: (lambda b: (bool(b[0]), '; '.join(b[0][:4]) or 'no deviation'))(gridshape_cases(keys, grids)))
