"""C08 pointwise tensor-algebra identities."""
import itertools
import random
import time
from fractions import Fraction
import numpy as np

from engine.jets import Field, J, same, Undecided, NeedResample
from engine.e1 import Env, tens, untens
from engine.e1run import Worlds, function_obligations
from engine.helpers import helper_obligations
from engine.universe import arr, ozeros, leibniz_det, gauss_inverse
from engine import contracts as CT
from engine.chain import make_rel
from props.lemmas import lemma_obligations, ALGEBRA_LEMMAS

LEVEL = 'proof'

ALG_FUNCS = ['gammaup3', 'gammadet', 'Kup3', 'Aup3', 'Adown3', 'A2', 'Ktrace', 'betadown3', 'betamag', 'nup4', 'ndown4',
             'gammadown4', 'gammaup4', 'gdown4', 'gup4', 'gdet', 'gtt', 'gtx', 'gty', 'gtz', 'psi_bssnok', 'phi_bssnok',
             'gammadown3_bssnok', 'gammaup3_bssnok', 'Adown3_bssnok', 'Aup3_bssnok', 'A2_bssnok', 'gammadown3',
             'Kdown3', 'betaup3', 'dttau']
ALG_HELPERS = ['trace3', 'trace4', 'tracefree3', 'magnitude3', 'magnitude4', 'vector_inner_product3',
               'vector_inner_product4', 'norm3', 'norm4', 's_to_st', 'kronecker_delta3', 'kronecker_delta4',
               'levicivita_symbol_down3', 'levicivita_symbol_down4', 'levicivita_down3', 'levicivita_down4']


def rand_sym(F, rng, n):
    L = [[J.rand(F, 0, rng) for _ in range(n)] for _ in range(n)]
    return arr([[L[min(i, j)][max(i, j)] for j in range(n)] for i in range(n)])


def comps(M):
    n = M.shape[0]
    return [M[i, j] for i in range(n) for j in range(i, n)]


def maths_obligations(R, npoints):
    import aurel.maths as M
    for k in range(npoints):
        F = Field('p')
        rng = random.Random(f'C08/{R.seed}/{k}')
        env = Env(F)
        mm = env.maths
        cases = []
        for n, det, inv, fmt, getc in [(3, 'determinant3', 'inverse3', 'format_rank2_3', 'getcomponents3'),
                                       (4, 'determinant4', 'inverse4', 'format_rank2_4', 'getcomponents4')]:
            A = rand_sym(F, rng, n)
            for form, arg in [('array', tens(A)), ('list', [tens(c) for c in comps(A)])]:
                cases.append((f'maths.{det}[{form}]', det, lambda a=arg, d=det: getattr(mm, d)(a), leibniz_det(A)))
                cases.append((f'maths.{inv}[{form}]', inv, lambda a=arg, d=inv: getattr(mm, d)(a), gauss_inverse(A)))
                cases.append((f'maths.{fmt}[{form}]', fmt, lambda a=arg, d=fmt: getattr(mm, d)(a), A))
                cases.append((f'maths.{getc}[{form}]', getc, lambda a=arg, d=getc: getattr(mm, d)(a), comps(A)))
            # M . M^-1 = 1 through the real inverse (independent of the Gauss-Jordan spec)
            cases.append((f'maths.{inv}:times-matrix-is-identity', inv,
                          lambda A=A, d=inv: tens(np.einsum('ij,jk->ik', untens(getattr(mm, d)(tens(A))), A)),
                          arr([[1 if i == j else 0 for j in range(n)] for i in range(n)])))
        T = arr([[J.rand(F, 0, rng) for _ in range(4)] for _ in range(4)])
        half = Fraction(1, 2)
        cases.append(('maths.symmetrise_tensor', 'symmetrise_tensor', lambda: mm.symmetrise_tensor(tens(T)), (T + T.T) * half))
        cases.append(('maths.antisymmetrise_tensor', 'antisymmetrise_tensor', lambda: mm.antisymmetrise_tensor(tens(T)),
                      (T - T.T) * half))
        cases.append(('maths.symmetrise+antisymmetrise=id', 'symmetrise_tensor',
                      lambda: mm.symmetrise_tensor(tens(T)) + mm.antisymmetrise_tensor(tens(T)), T))
        # populate_4Riemann: arguments with the symmetries their producers guarantee
        def riem3():
            Rm = ozeros(3, 3, 3, 3)
            for a, b, c, d in itertools.product(range(3), repeat=4):
                if a < b and c < d and (a, b) <= (c, d):
                    v = J.rand(F, 0, rng)
                    for (p, q, s) in [((a, b, c, d), 1, 0), ((b, a, c, d), -1, 0), ((a, b, d, c), -1, 0), ((b, a, d, c), 1, 0),
                                      ((c, d, a, b), 1, 0), ((d, c, a, b), -1, 0), ((c, d, b, a), -1, 0), ((d, c, b, a), 1, 0)]:
                        Rm[p] = v * q
            return Rm
        ssss = riem3()
        ssst = ozeros(3, 3, 3)
        for a, b, c in itertools.product(range(3), repeat=3):
            if a < b:
                v = J.rand(F, 0, rng)
                ssst[a, b, c] = v
                ssst[b, a, c] = -v
        stst = rand_sym(F, rng, 3)
        spec = ozeros(4, 4, 4, 4)
        spec[1:, 1:, 1:, 1:] = ssss
        for i, j, k in itertools.product(range(1, 4), repeat=3):
            v = ssst[i - 1, j - 1, k - 1]          # R_{ijk0}
            spec[i, j, k, 0] = v
            spec[i, j, 0, k] = -v
            spec[k, 0, i, j] = v
            spec[0, k, i, j] = -v
        for i, j in itertools.product(range(1, 4), repeat=2):
            v = stst[i - 1, j - 1]                 # R_{i0j0}
            spec[i, 0, j, 0] = v
            spec[0, i, 0, j] = v
            spec[i, 0, 0, j] = -v
            spec[0, i, j, 0] = -v
        cases.append(('maths.populate_4Riemann', 'populate_4Riemann',
                      lambda: mm.populate_4Riemann(tens(ssss), tens(ssst), tens(stst)), spec))
        for name, fn, thunk, spec in cases:
            R.under_contract(getattr(M, fn), f'aurel.maths.{fn}')
            t0 = time.time()
            try:
                res = thunk()
                bad = CT.compare(res, spec)
                st = 'refuted' if bad else 'discharged'
                R.ob(f'{name}[pt{k}]:ensures', fn, st, 'pit-exact', time.time() - t0,
                     'code != spec' if bad else '', [c for c, _ in bad] or None)
            except ValueError as e:
                if 'read-only' in str(e):
                    R.ob(f'{name}[pt{k}]:frame', fn, 'refuted', 'numpy-readonly', time.time() - t0, str(e), ['frame'])
                else:
                    R.ob(f'{name}[pt{k}]:ensures', fn, 'refuted', 'pit-exact', time.time() - t0, f'raised {e}', ['raised'])
            except Undecided as e:
                R.ob(f'{name}[pt{k}]:ensures', fn, 'undecided', 'pit-exact', time.time() - t0, str(e))


def safe_division_obligations(R):
    """exhaustive over the isinstance/dtype dispatch of safe_division x broadcast shapes;
    values: a finite set containing +-0, negatives, tiny/huge (bounded in values)."""
    import aurel.maths as M
    R.under_contract(M.safe_division, 'aurel.maths.safe_division')
    vals = [0.0, -0.0, 1.5, -2.0, 1e-15, 1e15, 1e-20, -3e-300]
    def variants(shape):
        base = np.array(vals * 2)[:int(np.prod(shape)) if shape else 1]
        out = []
        if shape == ():
            for v in (0, 3, -2):
                out.append(('int', v))
            for v in (0.0, -0.0, 2.5, -1e-15):
                out.append(('float', v))
                out.append(('np.float64', np.float64(v)))
                out.append(('np.float32', np.float32(v)))
            for v in (0, 5):
                out.append(('np.int64 scalar', np.int64(v)))
                out.append(('np.int32 scalar', np.int32(v)))
            out.append(('0-d float array', np.array(0.0)))
            out.append(('0-d float array', np.array(4.0)))
            out.append(('np.complex128 scalar', np.complex128(0)))
            out.append(('np.complex128 scalar', np.complex128(2 - 1j)))
            return out
        n = int(np.prod(shape))
        fl = np.resize(np.array(vals), n).reshape(shape)
        out.append(('float64 array', fl))
        out.append(('float32 array', fl.astype(np.float32)))
        out.append(('int64 array', np.resize(np.array([0, 1, -3, 7]), n).reshape(shape).astype(np.int64)))
        out.append(('int32 array', np.resize(np.array([0, 2, -5, 0]), n).reshape(shape).astype(np.int32)))
        out.append(('complex array', fl * (1 + 2j)))
        out.append(('bool array', np.resize(np.array([True, False]), n).reshape(shape)))
        return out
    shapes = [(), (3,), (2, 3), (3, 1), (1, 3), (2, 1, 3)]
    t0 = time.time()
    n = 0
    bad = []
    for sa, sb in itertools.product(shapes, repeat=2):
        try:
            np.broadcast_shapes(sa, sb)
        except ValueError:
            continue
        for (ta, a), (tb, b) in itertools.product(variants(sa), variants(sb)):
            n += 1
            with np.errstate(all='ignore'):
                c = M.safe_division(a, b)
                bb = np.asarray(b)
                aa = np.asarray(a)
                exp = np.where(bb != 0, np.true_divide(aa, np.where(bb != 0, bb, 1)), 0)
            cc = np.asarray(c)
            ok = cc.shape == exp.shape or cc.shape == np.broadcast_shapes(aa.shape, bb.shape)
            ok = ok and np.all(np.isfinite(cc[np.broadcast_to(bb == 0, cc.shape)])) and np.all(cc[np.broadcast_to(bb == 0, cc.shape)] == 0)
            nz = np.broadcast_to(bb != 0, cc.shape)
            with np.errstate(all='ignore'):
                ref = np.broadcast_to(np.true_divide(aa, np.where(bb != 0, bb, 1)), cc.shape)
            fin = nz & np.isfinite(ref)
            ok = ok and np.allclose(cc[fin], ref[fin], rtol=1e-5, atol=0)
            if not ok:
                bad.append(f'a={ta}{sa} b={tb}{sb}')
    R.notes.append('safe_division: a Python built-in complex scalar divisor equal to 0 raises ZeroDivisionError (Python evaluates a / b before np.where); built-in complex scalars are outside the input kinds the dispatch handles (int, float, ndarray, numpy scalars) and are excluded, numpy complex scalars/arrays are included')
    R.bounded.append(dict(function='aurel.maths.safe_division', bound='type dispatch x broadcast shapes exhaustive over the listed '
                          'scalar/array kinds; values from a finite set incl. +-0 and extremes', cases=n))
    R.ob('maths.safe_division:zero-where-divisor-zero', 'safe_division', 'refuted' if bad else 'bounded-ok', 'bounded-native',
         time.time() - t0, '; '.join(bad[:10]), bad or None, bounded=f'{n} type/shape combinations, finite value set')


def safe_division_symbolic(R):
    """E2: the real safe_division on symbolic reals, one run per (kind of a) x (kind of b) of its isinstance / dtype
    dispatch: result == a / b where b != 0 and == 0 where b == 0, for ALL real values (z3)."""
    import types
    import z3
    import aurel.maths as M
    from engine import symx as SX
    from engine.symx import Z, explore, prove, to_z3

    def zof(v):
        return v.z if isinstance(v, (ZF, ZI, ZA)) else v

    class ZF(float):
        def __new__(cls, z):
            o = float.__new__(cls, 0.0)
            o.z = z
            return o
        def __eq__(self, o): return self.z == zof(o)
        def __ne__(self, o): return self.z != zof(o)
        __hash__ = None
        def __truediv__(self, o): return ZF(self.z / zof(o)) if not isinstance(o, ZA) else ZA(self.z / o.z, 'float64')
        def __rtruediv__(self, o): return ZF(zof(o) / self.z)
        def __mul__(self, o): return ZF(self.z * zof(o))
        __rmul__ = __mul__

    class ZI(int):
        def __new__(cls, z):
            o = int.__new__(cls, 0)
            o.z = z
            return o
        def __eq__(self, o): return self.z == zof(o)
        def __ne__(self, o): return self.z != zof(o)
        __hash__ = None
        def __mul__(self, o): return ZF(self.z * zof(o))
        __rmul__ = __mul__
        def __truediv__(self, o): return ZF(self.z / zof(o))
        def __rtruediv__(self, o): return ZF(zof(o) / self.z)

    class ZA(np.ndarray):
        def __new__(cls, z, kind):
            o = np.ndarray.__new__(cls, shape=(), dtype=object)
            o.z, o.kind = z, kind
            return o
        @property
        def dtype(self): return np.dtype(self.kind)
        def astype(self, t): return ZA(self.z * 1.0, np.dtype(t).name)
        def __eq__(self, o): return self.z == zof(o)
        def __ne__(self, o): return self.z != zof(o)
        __hash__ = None
        def __truediv__(self, o): return ZA(self.z / zof(o), 'float64')
        def __rtruediv__(self, o): return ZA(zof(o) / self.z, 'float64')
        def __mul__(self, o): return ZA(self.z * zof(o), 'float64')
        __rmul__ = __mul__

    def _zabs(z):
        e = to_z3(z)
        return Z(z3.If(e >= 0, e, -e))
    for _cls in (ZF, ZI, ZA):
        _cls.__gt__ = lambda self, o: self.z > zof(o)
        _cls.__ge__ = lambda self, o: self.z >= zof(o)
        _cls.__lt__ = lambda self, o: self.z < zof(o)
        _cls.__le__ = lambda self, o: self.z <= zof(o)
    ZF.__abs__ = lambda self: ZF(_zabs(self.z))
    ZI.__abs__ = lambda self: ZI(_zabs(self.z))
    ZA.__abs__ = lambda self: ZA(_zabs(self.z), self.kind)

    class NPd:
        ndarray, int32, int64, float32, float64 = np.ndarray, np.int32, np.int64, np.float32, np.float64
        errstate = np.errstate

        def __getattr__(self, n):            # constants and helpers that do not touch array values (finfo, dtype, ...)
            return getattr(np, n)

        def abs(self, a): return abs(a) if hasattr(a, 'z') else Z(z3.If(to_z3(a) >= 0, to_z3(a), -to_z3(a))) if isinstance(a, Z) else np.abs(a)
        absolute = abs
        fabs = abs
        def where(self, c, x, y): return Z(z3.If(to_z3(c), to_z3(zof(x), real=True), to_z3(zof(y), real=True)))
        def zeros_like(self, a): return Z(z3.RealVal(0))
    g = dict(M.__dict__)
    g['np'] = NPd()
    fn = types.FunctionType(M.safe_division.__code__, g, 'safe_division')
    kinds = ['int', 'float', 'array int32', 'array int64', 'array float64', 'numpy scalar']

    def mk(kind, name):
        if kind == 'int':
            return ZI(Z(z3.Int(name)))
        if kind == 'float':
            return ZF(Z(z3.Real(name)))
        if kind.startswith('array'):
            k = kind.split()[1]
            return ZA(Z(z3.Int(name) if k.startswith('int') else z3.Real(name)), k)
        return Z(z3.Real(name))
    t0 = time.time()
    bad, unk, n = [], [], 0
    for ka, kb in itertools.product(kinds, repeat=2):
        def run():
            c = SX.ctx()
            a, b = mk(ka, 'a'), mk(kb, 'b')
            res = fn(a, b)
            toreal = lambda e: z3.ToReal(e) if z3.is_int(e) else e
            az, bz = toreal(to_z3(zof(a))), toreal(to_z3(zof(b)))
            c.require('value', toreal(to_z3(zof(res), real=True)) == z3.If(bz != 0, az / bz, z3.RealVal(0)))
        try:
            paths = explore(run)
        except Exception as e:
            unk.append(f'a: {ka}, b: {kb}: {type(e).__name__}: {e}')
            continue
        for _, c in paths:
            for nm, goal, pc in c.obls:
                n += 1
                v, model, _ = prove(pc, goal)
                if v == 'invalid':
                    bad.append(f'a: {ka}, b: {kb}: counter-model {model}')
                elif v == 'unknown':
                    unk.append(f'a: {ka}, b: {kb}: {model}')
    R.paths += n
    st = 'refuted' if bad else ('undecided' if unk else 'discharged')

    def replay(o):
        worst = []
        for bv in (1e-17, -3e-300, 5e-324, 1e-20):
            for a in (2.0, np.array([1.0, -2.0]), 3):
                for b in (bv, np.array([bv, 0.0]), np.float64(bv)):
                    with np.errstate(all='ignore'):
                        r = np.asarray(M.safe_division(a, b), dtype=float)
                        e = np.where(np.asarray(b) != 0, np.asarray(a, dtype=float) / np.where(np.asarray(b) != 0, np.asarray(b), 1), 0)
                    if not np.allclose(r, np.broadcast_to(e, r.shape), rtol=1e-12, atol=0, equal_nan=False):
                        worst.append(f'safe_division({a!r}, {b!r}) = {r!r}, expected {e!r}')
        return bool(worst), '; '.join(worst[:4]) or 'tiny non-zero divisors handled as specified'
    R.ob('maths.safe_division:result == a/b where b != 0 and 0 where b == 0, all reals, every dispatch path', 'safe_division', st, 'z3',
         time.time() - t0, '; '.join((bad or unk)[:3]) or f'{n} verification conditions over {len(kinds)}^2 kind pairs', bad[:6] or None, replay=replay)


def dtype_cases(seed=0):
    """'for every input' includes whole-number data held in integer arrays (a grid described with ints has integer coordinate
    arrays, and fields built from them stay integer): every quantity of the real AurelCore must equal the one obtained from the
    same data in float64.  -> list of discrepancies, number of keys compared"""
    import warnings
    import numpy as np
    import aurel
    import aurel.core as Cm
    N = 12
    par = dict(Nx=N, Ny=N, Nz=N, xmin=-6, ymin=-5, zmin=-6, dx=1, dy=1, dz=1)
    bad, ncmp = [], 0
    with warnings.catch_warnings():
        warnings.simplefilter('ignore')
        for kw in (dict(boundary='no boundary', fd_order=4), dict(boundary='periodic', fd_order=6)):
            fdi = aurel.FiniteDifference(dict(par), verbose=False, **kw)
            fdf = aurel.FiniteDifference({k: (float(v) if not k.startswith('N') else v) for k, v in par.items()}, verbose=False, **kw)

            def mk(fd, cast):
                rel = aurel.AurelCore(fd, verbose=False)
                x, y, z = fd.x, fd.y, fd.z
                one = np.ones_like(x)
                ins = dict(gammadown3=np.array([[40 + x * x, y, 0 * one], [y, 50 + z * z, x], [0 * one, x, 60 + y * y]]),
                           Kdown3=np.array([[x, 0 * one, z], [0 * one, 2 * one, 0 * one], [z, 0 * one, 3 * y]]),
                           alpha=2 + x * x, betaup3=np.array([x, z, 2 * one]), rho0=3 + y * y, press=1 + z * z, eps=2 * one)
                for k, v in ins.items():
                    rel.data[k] = cast(v)
                rel.freeze_data()
                return rel
            ri = mk(fdi, lambda v: np.asarray(v).astype(np.int64))
            rf = mk(fdf, lambda v: np.asarray(v, dtype=float))
            for k in [k for k in Cm.descriptions if hasattr(Cm.AurelCore, k)]:
                out = []
                for rel in (ri, rf):
                    try:
                        out.append(rel[k])
                    except Exception as e:
                        out.append(RuntimeError(f'{type(e).__name__}: {str(e)[:80]}'))
                ra, rb = (isinstance(o, RuntimeError) for o in out)
                if ra or rb:
                    if ra != rb:
                        bad.append(f'{k} [{kw["boundary"]}]: {"raises " + str(out[0]) if ra else "returns"} for integer arrays, {"raises " + str(out[1]) if rb else "returns"} for float arrays')
                    continue
                try:
                    a, b = np.asarray(out[0], dtype=complex), np.asarray(out[1], dtype=complex)
                except (TypeError, ValueError):
                    continue
                ncmp += 1
                if a.shape != b.shape or not np.allclose(a, b, rtol=1e-9, atol=1e-9, equal_nan=True):
                    bad.append(f'{k} [{kw["boundary"]}]: integer-array inputs give a different value than the same data in float64'
                               + ('' if a.shape != b.shape else f' (max |difference| {np.nanmax(np.abs(a - b)):.3g})'))
    return bad, ncmp


def dtype_obligation(R):
    t0 = time.time()
    bad, ncmp = dtype_cases()
    R.bounded.append(dict(function='aurel.core.AurelCore (every catalogue key)', bound='one 12^3 grid, 2 boundary / order settings, integer-valued fields as int64 vs float64'))
    R.ob('core.*:whole-number inputs held in integer arrays give the same value as the same inputs in float64 (every key)', '__getitem__',
         'refuted' if bad else ('bounded-ok' if ncmp else 'undecided'), 'bounded-native', time.time() - t0, '; '.join(bad[:4]) or f'{ncmp} key evaluations compared',
         bad[:6] or None, bounded='12^3 grid, 2 settings', replay=lambda o: (lambda b: (bool(b[0]), '; '.join(b[0][:4]) or 'no difference'))(dtype_cases()))


def run(R):
    from engine.canary import run_canaries
    run_canaries(R, ('e1', 'symx'))
    dtype_obligation(R)
    W = Worlds(R.seed)
    npts = 1 if R.tier == 'quick' else 3
    R.assume('A1', 'A2', 'A5', 'A6', 'A7', 'A8')
    R.notes.append('conditioning of the closed-form inverses for badly scaled inputs is a floating-point question outside this family (A1): the closed forms are proved algebraically correct for every admissible input')
    maths_obligations(R, max(npts, 2))
    safe_division_obligations(R)
    safe_division_symbolic(R)
    # generic data, and the special regimes in which a cache test can come out differently (inputs as components, the shift
    # through one component only, no shift at all)
    scens = ['freeT', 'fluid', 'shift_z', 'noshift', 'onshell_comp'] if R.tier == 'quick' else ['freeT', 'fluid', 'fluid_comp', 'onshell', 'onshell_comp', 'noshift', 'shift_x', 'shift_y', 'shift_z']
    for f in ALG_FUNCS:
        function_obligations(R, W, f, scens, npoints=npts)
    from props.regimes import regime_obligations
    regime_obligations(R, list(ALG_FUNCS))
    helper_obligations(R, W, scens[0], only=set(ALG_HELPERS), npoints=npts)
    lemma_obligations(R, W, ALGEBRA_LEMMAS, ['freeT', 'onshell'], npoints=npts)
    # 'the Riemann and Weyl outputs have their algebraic symmetries': both branches of st_Weyl_down4 (from the cached
    # Riemann tensor / from the electric and magnetic parts), the 3- and 4-Riemann tensors, on spec and on the real chain
    from props import lemmas as LM
    lemma_obligations(R, W, [('Riemann3 symmetries', LM.L_riemann3), ('Riemann4 symmetries', LM.L_riemann4), ('Weyl tensor', LM.L_weyl)], ['onshell'], npoints=1)
