from props.tensor import run_tensor
LEVEL = 'proof'


def run(R):
    from engine.canary import run_canaries
    run_canaries(R, ('e1',))
    run_tensor(R, 'C09')
