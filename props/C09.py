import time
import numpy as np
from props.tensor import run_tensor
LEVEL = 'proof'

# degree-1 homogeneous in (rho0, press) at fixed eps, velocity and geometry: T_ab = rho0 (1 + eps) u_a u_b + p h_ab and every
# projection of it
HOMOGENEOUS = ['rho', 'Tdown4', 'Tup4', 'Ttrace', 'rho_n', 'fluxup3_n', 'fluxdown3_n', 'Stressup3_n', 'Stressdown3_n', 'Stresstrace_n',
               'press_n', 'anisotropic_press_down3_n', 'conserved_D', 'conserved_E', 'conserved_Sdown3', 'conserved_Sup3']


def scale_cases(scales=(1e-9, 1e-13, 1e7)):
    """the textbook stress-energy tensor is linear in (rho0, p): the real AurelCore on the same moving fluid in units in which
    the densities are tiny (cosmological code units) or huge must give exactly the rescaled tensors.  The generic-data
    obligations work at O(1) magnitudes; anything in the code that compares a density with an absolute number shows here."""
    import warnings
    import aurel
    import aurel.core as Cm
    N = 10
    par = dict(Nx=N, Ny=N, Nz=N, xmin=-1.0, ymin=-0.9, zmin=-1.1, dx=0.2, dy=0.2, dz=0.2)
    bad, ncmp = [], 0
    with warnings.catch_warnings():
        warnings.simplefilter('ignore')
        fd = aurel.FiniteDifference(par, boundary='no boundary', fd_order=4, verbose=False)
        x, y, z = fd.x, fd.y, fd.z
        one = np.ones_like(x)
        gam = np.array([[1.2 + 0.1 * x * x, 0.05 * y, 0.02 * z], [0.05 * y, 1.1 + 0.1 * z * z, 0.03 * x], [0.02 * z, 0.03 * x, 1.3 + 0.1 * y * y]])
        vel = np.array([0.2 + 0.05 * y, -0.1 + 0.05 * z, 0.15 * one])
        W = 1 / np.sqrt(1 - np.einsum('ij...,i...,j...->...', gam, vel, vel))

        def mk(lam, style):
            rel = aurel.AurelCore(fd, verbose=False)
            rel.data['gammadown3'] = gam.copy()
            rel.data['Kdown3'] = np.array([[0.1 * x, 0 * one, 0.02 * z], [0 * one, 0.2 * one, 0 * one], [0.02 * z, 0 * one, 0.3 * y]])
            rel.data['alpha'] = 1.1 + 0.1 * x
            rel.data['betaup3'] = np.array([0.1 * x, 0.05 * z, 0.2 * one])
            rel.data['rho0'] = lam * (1 + 0.1 * np.cos(x))
            rel.data['press'] = lam * 0.2 * (1 + 0.1 * np.cos(x)) * (1 + 0.3 * np.sin(y))
            rel.data['eps'] = 0.3 + 0.05 * z
            rel.data['w_lorentz'] = W.copy()
            if style == 'tensor':
                rel.data['velup3'] = vel.copy()
            else:
                rel.data['velx'], rel.data['vely'], rel.data['velz'] = vel[0].copy(), vel[1].copy(), vel[2].copy()
            rel.freeze_data()
            return rel
        for style in ('tensor', 'components'):
            ref = mk(1.0, style)
            for lam in scales:
                rel = mk(lam, style)
                for k in HOMOGENEOUS:
                    if not hasattr(Cm.AurelCore, k):
                        continue
                    try:
                        a, b = np.asarray(ref[k], dtype=float), np.asarray(rel[k], dtype=float) / lam
                    except Exception as e:
                        bad.append(f'{k} (velocity as {style}, densities x {lam:g}): raised {type(e).__name__}: {e}')
                        continue
                    ncmp += 1
                    sc = float(np.max(np.abs(a))) or 1.0
                    err = float(np.max(np.abs(a - b))) / sc
                    if not err <= 1e-9:
                        bad.append(f'{k} (velocity as {style}): with rho0 and press multiplied by {lam:g} the result is not {lam:g} times the original (relative deviation {err:.3g})')
    return bad, ncmp


def scale_obligation(R):
    t0 = time.time()
    bad, ncmp = scale_cases()
    R.bounded.append(dict(function='aurel.core.AurelCore stress-energy keys', bound='one moving fluid on a 10^3 grid, 2 input spellings, densities scaled by 1e-9, 1e-13, 1e7'))
    R.ob('core.T*:linear in (rho0, press) -- the same fluid in units with tiny or huge densities gives the rescaled tensors', 'Tdown4',
         'refuted' if bad else ('bounded-ok' if ncmp else 'undecided'), 'bounded-native', time.time() - t0, '; '.join(bad[:4]) or f'{ncmp} comparisons',
         bad[:6] or None, bounded='3 scales, 2 spellings', replay=lambda o: (lambda b: (bool(b[0]), '; '.join(b[0][:4]) or 'no deviation'))(scale_cases()))


def run(R):
    from engine.canary import run_canaries
    run_canaries(R, ('e1',))
    scale_obligation(R)
    run_tensor(R, 'C09')
