"""Property-level lemmas (E3): identities taken from the property statements, decided twice --
on the composition of the Spec functions (E3-spec) and on the real call chain (E3-code)."""
import itertools
import time
from fractions import Fraction
import numpy as np

from engine.jets import J, same, Undecided, NeedResample, CJ
from engine.e1 import tens, untens
from engine.universe import SpecUnavailable, arr, ozeros, D3, leibniz_det
from engine.chain import make_rel
from engine import contracts as CT

E = np.einsum
H = Fraction(1, 2)
T3 = Fraction(1, 3)


def eye(n):
    return arr([[1 if i == j else 0 for j in range(n)] for i in range(n)])


class SpecGet:
    kind = 'spec'

    def __init__(self, U):
        self.U = U

    def __getitem__(self, k):
        return self.U[k]

    def s_covd(self, f, idx): return self.U.covd3(f, idx)
    def Lie_beta(self, f, indexing, weight=0):
        dim, idx = CT.parse_lie_indexing(indexing)
        return self.U.lie_beta(f, idx, weight, dim)
    def tracefree3(self, f): return f - self.U['gammadown3'] * E('ij,ij->', self.U['gammaup3'], f) * T3
    def s_div(self, f, idx): return CT.spec_s_div(self.U, f, idx)
    def s_curl(self, f): return CT.spec_s_curl(self.U, f)
    def tetrad(self): return self.U.tetrad_vectors()
    def weyl_branch(self, cached):
        return self.U['st_Weyl_down4']


class CodeGet:
    kind = 'code'

    def __init__(self, env, U, **kw):
        self.env, self.U = env, U
        self.rel = make_rel(env, U, **kw)

    def __getitem__(self, k):
        v = self.rel[k]
        return self._un(v)

    def _un(self, v):
        if isinstance(v, (list, tuple)):
            return type(v)(self._un(e) for e in v)
        if isinstance(v, dict):
            return {k: self._un(e) for k, e in v.items()}
        return untens(v) if v is not None else None

    def s_covd(self, f, idx): return untens(self.rel.s_covd(tens(f), idx))
    def Lie_beta(self, f, indexing, weight=0): return untens(self.rel.Lie_beta(tens(f), indexing, weight=weight))
    def tracefree3(self, f): return untens(self.rel.tracefree3(tens(f)))
    def s_div(self, f, idx): return untens(self.rel.s_div(tens(f), idx))
    def s_curl(self, f): return untens(self.rel.s_curl(tens(f), 'dd'))
    def tetrad(self):
        """the real tetrad_base(); for the quasi-Kinnersley choice the grid point (x,y,z) is
        re-drawn until the three Gram-Schmidt norms are canonical squares in F_p."""
        F, U, rel = self.U.F, self.U, self.rel
        if F.kind != 'p' or rel.tetrad != 'quasi-Kinnersley':
            return tuple(untens(v) for v in rel.tetrad_base())
        from engine.jets import ZERO_MI, NV
        F.abs_positive = True
        try:
            for attempt in range(4000):
                c = arr([J(F, 9, {ZERO_MI: F.num(U.rng.randrange(2, 10 ** 9)),
                                  tuple(1 if k == ax else 0 for k in range(NV)): F.num(1)}) for ax in (1, 2, 3)])
                rel.fd.x, rel.fd.y, rel.fd.z = tens(c[0]), tens(c[1]), tens(c[2])
                try:
                    return tuple(untens(v) for v in rel.tetrad_base())
                except NeedResample:
                    continue
            raise Undecided('no grid point with canonical Gram-Schmidt norms found')
        finally:
            F.abs_positive = False

    def levicivita4(self):
        return untens(self.rel.levicivita_down4())

    def weyl_branch(self, cached):
        rel = make_rel(self.env, self.U)
        if cached:
            rel['st_Riemann_down4']
        return untens(rel['st_Weyl_down4'])


class _FloatU:
    """spec universe seen as plain float arrays (values of the jets at the probe point)"""

    def __init__(self, U):
        self.U = U

    def __getitem__(self, k):
        from engine import native
        a = np.asarray(self.U[k], dtype=object)
        out = np.zeros(a.shape, dtype=complex if any(isinstance(e, CJ) for e in a.flat) else float)
        for idx in (np.ndindex(*a.shape) if a.shape else [()]):
            out[idx] = native.fval(a[idx])
        return out


class NativeGet:
    """lemma getter on the REAL AurelCore (binary64, 8th-order finite differences on a 13^3 grid whose input fields
    are the Taylor polynomials of the float scenario): values at the probe point.  Used only to replay a refuted lemma."""
    kind = 'native'

    def __init__(self, scen, seed, relkw=None):
        from engine import native
        self.native = native
        self.F, self.Uj, env = native.float_world(scen, seed)
        self.U = _FloatU(self.Uj)
        self.relkw = relkw or {}
        self.rel = self._make()

    def _make(self):
        rel, offs = self.native.make_native(self.Uj, **self.relkw)
        for k, v in self.Uj.inputs.items():
            rel.data[k] = self.native.field_of(v, offs)
        rel.freeze_data()
        return rel

    def _c(self, v):
        ic = self.native.IC
        return np.asarray(v)[..., ic, ic, ic]

    def __getitem__(self, k):
        return self._c(self.rel[k])

    def tetrad(self):
        return tuple(self._c(v) for v in self.rel.tetrad_base())

    def levicivita4(self):
        return self._c(self.rel.levicivita_down4())

    def weyl_branch(self, cached):
        rel = self._make()
        if cached:
            rel['st_Riemann_down4']
        return self._c(rel['st_Weyl_down4'])


def native_lemma_replay(fn, label, scen, seed, relkw=None, tol=2e-6):
    """-> (found, text): the identity evaluated on the real AurelCore"""
    try:
        g = NativeGet(scen, seed, relkw)
        rows = fn(g)
    except Exception as e:
        return False, f'lemma not replayable natively ({type(e).__name__}: {e})'
    for lab, lhs, rhs in rows:
        if lab != label:
            continue
        a = np.asarray(lhs, dtype=complex)
        b = np.asarray(rhs, dtype=complex) if not np.isscalar(rhs) else np.full(a.shape, rhs, dtype=complex)
        if b.shape != a.shape:
            b = np.broadcast_to(b, a.shape)
        scale = 1.0 + max(float(np.max(np.abs(a))) if a.size else 0.0, float(np.max(np.abs(b))) if b.size else 0.0)
        err = float(np.max(np.abs(a - b))) if a.size else 0.0
        idx = np.unravel_index(int(np.argmax(np.abs(a - b))), a.shape) if a.size and a.shape else ()
        txt = (f'real AurelCore (fd_order 8, 13^3 grid, scenario {scen}): identity "{label}" at the probe point: max |lhs - rhs| = {err:.3e} '
               f'(scale {scale:.3e}) at component {tuple(int(i) for i in idx)}: lhs = {a[idx] if a.shape else a}, rhs = {b[idx] if b.shape else b}')
        return err > tol * scale, txt
    return False, f'label {label!r} not produced by the lemma on the native getter'


# ---------------------------------------------------------------------------
# each lemma: g -> list of (label, lhs, rhs)
def L_inverse(g):
    return [('gammaup3.gammadown3=1', E('ij,jk->ik', g['gammaup3'], g['gammadown3']), eye(3)),
            ('gup4.gdown4=1', E('ij,jk->ik', g['gup4'], g['gdown4']), eye(4)),
            ('gammaup3 symmetric', g['gammaup3'], g['gammaup3'].T),
            ('gup4 symmetric', g['gup4'], g['gup4'].T)]


def L_dets(g):
    return [('gammadet = Leibniz det', g['gammadet'], leibniz_det(g['gammadown3'])),
            ('gdet = -alpha^2 gammadet', g['gdet'], -g['alpha'] ** 2 * g['gammadet']),
            ('gdet = Leibniz det(gdown4)', g['gdet'], leibniz_det(g['gdown4']))]


def L_3p1(g):
    return [('g_tt = -alpha^2 + beta_i beta^i', g['gdown4'][0, 0], -g['alpha'] ** 2 + E('i,i->', g['betaup3'], g['betadown3'])),
            ('g_ti = beta_i', g['gdown4'][0, 1:], g['betadown3']),
            ('g_ij = gamma_ij', g['gdown4'][1:, 1:], g['gammadown3']),
            ('g^tt = -1/alpha^2', g['gup4'][0, 0], -1 / g['alpha'] ** 2),
            ('g^ti = beta^i/alpha^2', g['gup4'][0, 1:], g['betaup3'] / g['alpha'] ** 2),
            ('g^ij = gamma^ij - beta^i beta^j/alpha^2', g['gup4'][1:, 1:],
             g['gammaup3'] - E('i,j->ij', g['betaup3'], g['betaup3']) / g['alpha'] ** 2)]


def L_normal(g):
    n_u, n_d = g['nup4'], g['ndown4']
    return [('n^mu n_mu = -1', E('a,a->', n_u, n_d), -1),
            ('n_mu = g_mu_nu n^nu', E('ab,b->a', g['gdown4'], n_u), n_d),
            ('n^mu gamma_mu_nu = 0', E('a,ab->b', n_u, g['gammadown4']), arr([0] * 4)),
            ('gamma^mu_nu n_nu = 0', E('ab,b->a', g['gammaup4'], n_d), arr([0] * 4)),
            ('gamma_mu_nu = g_mu_nu + n_mu n_nu', g['gammadown4'], g['gdown4'] + E('a,b->ab', n_d, n_d)),
            ('gamma^mu_nu = g^mu_nu + n^mu n^nu', g['gammaup4'], g['gup4'] + E('a,b->ab', n_u, n_u))]


def L_updown(g):
    gd = g['gammadown3']
    return [('lower(Kup3) = Kdown3', E('ai,bj,ij->ab', gd, gd, g['Kup3']), g['Kdown3']),
            ('lower(Aup3) = Adown3', E('ai,bj,ij->ab', gd, gd, g['Aup3']), g['Adown3']),
            ('trace(Adown3) = 0', E('ij,ij->', g['gammaup3'], g['Adown3']), 0),
            ('Ktrace = gamma^ij K_ij', g['Ktrace'], E('ij,ij->', g['gammaup3'], g['Kdown3'])),
            ('A_ij + gamma_ij K/3 = K_ij', g['Adown3'] + gd * g['Ktrace'] * T3, g['Kdown3']),
            ('betadown3 raised = betaup3', E('ij,j->i', g['gammaup3'], g['betadown3']), g['betaup3'])]


def L_conformal(g):
    gt = g['gammadown3_bssnok']
    return [('det(conformal metric) = 1', leibniz_det(gt), 1),
            ('psi^12 = gammadet', g['psi_bssnok'] ** 12, g['gammadet']),
            ('conformal inverse', E('ij,jk->ik', g['gammaup3_bssnok'], gt), eye(3)),
            ('gamma_ij = psi^4 conformal', gt * g['psi_bssnok'] ** 4, g['gammadown3']),
            ('tilde A traceless', E('ij,ij->', g['gammaup3_bssnok'], g['Adown3_bssnok']), 0),
            ('tilde A_ij = psi^-4 A_ij', g['Adown3_bssnok'] * g['psi_bssnok'] ** 4, g['Adown3']),
            ('tilde A^ij lowered', E('ai,bj,ij->ab', gt, gt, g['Aup3_bssnok']), g['Adown3_bssnok'])]


def L_tracefree(g):
    U = g.U if hasattr(g, 'U') else None
    f = arr([[J.rand(U.F, 0, U.rng) for _ in range(3)] for _ in range(3)])
    return [('tracefree3(f) is trace-free', E('ij,ij->', g['gammaup3'], g.tracefree3(f)), 0)]


def riemann_symmetries(R, n, label):
    out = []
    z = ozeros(*([n] * 4))
    out.append((f'{label}: R_abcd = -R_bacd', R, -E('bacd->abcd', R)))
    out.append((f'{label}: R_abcd = -R_abdc', R, -E('abdc->abcd', R)))
    out.append((f'{label}: R_abcd = R_cdab', R, E('cdab->abcd', R)))
    out.append((f'{label}: R_a[bcd] = 0', R + E('acdb->abcd', R) + E('adbc->abcd', R), z))
    return out


def L_riemann3(g):
    return riemann_symmetries(g['s_Riemann_down3'], 3, 's_Riemann_down3')


def L_riemann4(g):
    return riemann_symmetries(g['st_Riemann_down4'], 4, 'st_Riemann_down4')


def L_weyl(g):
    out = []
    for cached in (False, True):
        C = g.weyl_branch(cached)
        lab = 'Weyl[' + ('from cached Riemann' if cached else 'from E/B') + ']'
        out += riemann_symmetries(C, 4, lab)
        out.append((lab + ': trace-free', E('ac,abcd->bd', g['gup4'], C), ozeros(4, 4)))
        out.append((lab + ' = Riemann - Ricci parts (textbook)', C, g.U['st_Weyl_down4']))
    out.append(('both Weyl constructions agree', g.weyl_branch(False), g.weyl_branch(True)))
    return out


def L_EB(g):
    En, Bn = g['eweyl_n_down3'], g['bweyl_n_down3']
    gu = g['gammaup3']
    n = g['nup4']
    C = g['st_Weyl_down4']
    out = [('E_n symmetric', En, En.T), ('B_n symmetric', Bn, Bn.T),
           ('E_n trace-free', E('ij,ij->', gu, En), 0), ('B_n trace-free', E('ij,ij->', gu, Bn), 0),
           ('E_n = C_imjn n^m n^n', En, E('ambn,m,n->ab', C, n, n)[1:, 1:])]
    Eu, Bu = g['eweyl_u_down4'], g['bweyl_u_down4']
    u = g['uup4']
    out += [('E_u symmetric', Eu, Eu.T), ('B_u symmetric', Bu, Bu.T),
            ('E_u trace-free', E('ab,ab->', g['gup4'], Eu), 0), ('B_u trace-free', E('ab,ab->', g['gup4'], Bu), 0),
            ('E_u u = 0', E('ab,b->a', Eu, u), arr([0] * 4)), ('B_u u = 0', E('ab,b->a', Bu, u), arr([0] * 4))]
    return out


def L_covd(g):
    U = g.U
    z3 = ozeros(3, 3, 3)
    out = [('D_c gamma_ab = 0', g.s_covd(g['gammadown3'], 'dd'), z3),
           ('D_c gamma^ab = 0', g.s_covd(g['gammaup3'], 'uu'), z3)]
    from engine.helpers import rand_tensor
    v = rand_tensor(U, (3,))
    w = rand_tensor(U, (3, 3))
    gd, gu = g['gammadown3'], g['gammaup3']
    out.append(('lowering commutes with D (vector)', g.s_covd(E('ab,b->a', gd, v), 'd'),
                E('ab,cb->ca', gd, g.s_covd(v, 'u'))))
    out.append(('raising commutes with D (rank 2, first index)', g.s_covd(E('ai,ib->ab', gu, w), 'ud'),
                E('ai,cib->cab', gu, g.s_covd(w, 'dd'))))
    out.append(('raising commutes with D (rank 2, second index)', g.s_covd(E('bi,ai->ab', gu, w), 'du'),
                E('bi,cai->cab', gu, g.s_covd(w, 'dd'))))
    out.append(('raising both commutes with D', g.s_covd(E('ai,bj,ij->ab', gu, gu, w), 'uu'),
                E('ai,bj,cij->cab', gu, gu, g.s_covd(w, 'dd'))))
    out.append(('div of vector = trace of D', g.s_div(v, 'u'), E('aa->', g.s_covd(v, 'u'))))
    out.append(('Lie_beta gamma_ij = D_i beta_j + D_j beta_i', g.Lie_beta(gd, 's_dd'),
                (lambda Db: Db + Db.T)(g.s_covd(g['betadown3'], 'd'))))
    return out


def L_bssn_split(g):
    return [('R_ij = tilde R_ij + R^phi_ij', g['s_Ricci_down3_bssnok'] + g['s_Ricci_down3_phi'], g['s_Ricci_down3']),
            ('tilde Gamma^i = tilde gamma^jk tilde Gamma^i_jk', g['s_Gamma_bssnok'],
             E('jk,ijk->i', g['gammaup3_bssnok'], g['s_Gamma_udd3_bssnok']))]


def L_fluid(g):
    u_u, u_d = g['uup4'], g['udown4']
    gd, W = g['gammadown3'], g['w_lorentz']
    v = g['velup3']
    vd = E('ij,j->i', gd, v)
    rho, p, h0 = g['rho'], g['press'], g['enthalpy']
    # rho0 h = rho + p (enthalpy density); written this way so that it also holds where rho0 = 0,
    # where the code's documented x/0 = 0 convention makes the specific enthalpy h itself meaningless
    rhohW2 = (rho + p) * W * W
    return [('u^mu u_mu = -1', E('a,a->', u_u, u_d), -1),
            ('g^mn u_m u_n = -1', E('ab,a,b->', g['gup4'], u_d, u_d), -1),
            ('g_mn u^m u^n = -1', E('ab,a,b->', g['gdown4'], u_u, u_u), -1),
            ('W^2 (1 - v_i v^i) = 1', W * W * (1 - E('i,i->', v, vd)), 1),
            ('T_mn = rho u_m u_n + p h_mn', g['Tdown4'], E('a,b->ab', u_d, u_d) * rho + g['hdown4'] * p),
            ('E = rho h W^2 - p', g['rho_n'], rhohW2 - p),
            ('S_i = rho h W^2 v_i', g['fluxdown3_n'], vd * rhohW2),
            ('S_ij = rho h W^2 v_i v_j + p gamma_ij', g['Stressdown3_n'], E('i,j->ij', vd, vd) * rhohW2 + gd * p),
            ('press_n = tr S / 3', g['press_n'], E('ij,ij->', g['gammaup3'], g['Stressdown3_n']) * T3),
            ('Ttrace = 3 p - rho', g['Ttrace'], 3 * p - rho),
            ('Ttrace = 3 press_n - rho_n', g['Ttrace'], 3 * g['press_n'] - g['rho_n']),
            ('rho0 * enthalpy = rho + p where rho0 != 0', g['rho0'] * (g['rho0'] * h0 - rho - p), 0),
            ('h_mn u^n = 0', E('ab,b->a', g['hdown4'], u_u), arr([0] * 4)),
            ('h^m_n projector', E('ab,bc->ac', g['hmixed4'], g['hmixed4']), g['hmixed4']),
            ('hup4 lowered = hdown4', E('ai,bj,ij->ab', g['gdown4'], g['gdown4'], g['hup4']), g['hdown4']),
            ('Tup4 lowered = Tdown4', E('ai,bj,ij->ab', g['gdown4'], g['gdown4'], g['Tup4']), g['Tdown4']),
            ('S^mu lowered', E('ab,b->a', g['gdown4'], g['conserved_Sup4']), g['conserved_Sdown4'])]


def L_Tproj(g):
    """projections when T_{mu nu} is supplied directly"""
    T, n = g['Tdown4'], g['nup4']
    gam_ud = E('ab,bc->ac', g['gammaup4'], g['gdown4'])   # gamma^a_c
    return [('rho_n = T n n', g['rho_n'], E('ab,a,b->', T, n, n)),
            ('S_i = -gamma_i^m T_mn n^n', g['fluxdown3_n'], -E('ma,mn,n->a', gam_ud, T, n)[1:]),
            ('S_ij = T_ij', g['Stressdown3_n'], T[1:, 1:]),
            ('Ttrace = g^mn T_mn', g['Ttrace'], E('ab,ab->', g['gup4'], T)),
            ('Ttrace = 3 press_n - rho_n', g['Ttrace'], 3 * g['press_n'] - g['rho_n']),
            ('st_Ricci_down3 from T = spatial part of Ricci', g['st_Ricci_down3'],
             g['gammadown3'] * g.U.Lambda + (T[1:, 1:] - g['gammadown3'] * g['Ttrace'] * H) * g.U.kappa)]


def L_kinematics(g):
    """default (Eulerian) fluid state: property C19"""
    al = g['alpha']
    a_d = g['accelerationdown4']
    return [('u^mu = n^mu', g['uup4'], g['nup4']),
            ('theta = -K', g['theta'], -g['Ktrace']),
            ('sigma_ij = -A_ij', g['sheardown4'][1:, 1:], -g['Adown3']),
            ('sigma_mn n^n = 0', E('ab,b->a', g['sheardown4'], g['nup4']), arr([0] * 4)),
            ('omega = 0', g['omegadown4'], ozeros(4, 4)),
            ('omega2 = 0', g['omega2'], 0),
            ('shear2 = A2', g['shear2'], E('ij,ij->', g['Adown3'], g['Aup3']) * H),
            ('a_i = d_i ln alpha', a_d[1:], D3(al) / al),
            ('a_mu n^mu = 0', E('a,a->', a_d, g['nup4']), 0),
            ('Theta_ij = -K_ij', g['thetadown4'][1:, 1:], -g['Kdown3'])]


def L_constraints(g):
    return [('Hamiltonian = 0', g['Hamiltonian'], 0),
            ('Momentumup3 = 0', g['Momentumup3'], arr([0] * 3)),
            ('Momentumdown3 = 0', g['Momentumdown3'], arr([0] * 3)),
            ('Einstein eq: G + Lambda g = kappa T', g['Einsteindown4'] + g['gdown4'] * g.U.Lambda, g['Tdown4'] * g.U.kappa),
            ('rho_n_fromHam = rho_n', g['rho_n_fromHam'], g['rho_n']),
            ('fluxup3_n_fromMom = fluxup3_n', g['fluxup3_n_fromMom'], g['fluxup3_n']),
            ('st_Ricci_down3 (from T) = R_ij', g['st_Ricci_down3'], g.U['Ricci4_textbook'][1:, 1:])]


def L_tetrad_qk(g):
    e0, e1, e2, e3 = g.tetrad()
    gd = g['gammadown3']
    tri = [e1[1:], e2[1:], e3[1:]]
    out = [('e0 = (1,0,0,0)', e0, arr([1, 0, 0, 0]))]
    for i, j in itertools.combinations_with_replacement(range(3), 2):
        out.append((f'triad e{i+1}.e{j+1} = delta', E('a,b,ab->', tri[i], tri[j], gd), 1 if i == j else 0))
    for i in range(3):
        out.append((f'e{i+1}^t = 0', (e1, e2, e3)[i][0], 0))
    return out


def L_tetrad_fluid(g):
    es = g.tetrad()
    gd = g['gdown4']
    eta = [-1, 1, 1, 1]
    out = [('e0 = u', es[0], g['uup4'])]
    for i, j in itertools.combinations_with_replacement(range(4), 2):
        out.append((f'tetrad e{i}.e{j} = eta', E('a,b,ab->', es[i], es[j], gd), eta[i] if i == j else 0))
    # handedness: the Weyl scalars of a left-handed tetrad are the complex conjugates, so "the invariants do not depend on the
    # tetrad" needs both choices to have the orientation of the volume form (the quasi-Kinnersley one has it: L_tetrad_orientation)
    if hasattr(g, 'levicivita4'):
        out.append(('tetrad is right-handed: eps_abcd e0^a e1^b e2^c e3^d = +1', E('abcd,a,b,c,d->', g.levicivita4(), es[0], es[1], es[2], es[3]), 1))
    return out


def L_tetrad_orientation(g):
    """sign of the volume form on the served tetrad (quasi-Kinnersley: orthonormal only for the spatial metric, so the value is not 1)"""
    es = g.tetrad()
    v = E('abcd,a,b,c,d->', g.levicivita4(), es[0], es[1], es[2], es[3])
    return [('tetrad is right-handed: sign of eps_abcd e0^a e1^b e2^c e3^d is +', v / abs(v), 1)]


ALGEBRA_LEMMAS = [('inverse', L_inverse), ('determinants', L_dets), ('3+1 form of g', L_3p1), ('normal', L_normal),
                  ('raise/lower', L_updown), ('conformal', L_conformal), ('tracefree', L_tracefree)]


def numeric_lemma_obligations(R, seed, lemmas, scens, relkw=None, tol=1e-9):
    """float64 evaluation of a lemma on the real chain (numeric evidence, never counted as proved)."""
    from engine import native
    for scen in scens:
        for lname, fn in lemmas:
            t0 = time.time()
            F, U, env = native.float_world(scen, seed)
            try:
                g = CodeGet(env, U, **(relkw or {}))
                rows = fn(g)
            except (Undecided, NeedResample, SpecUnavailable) as e:
                R.ob(f'lemma.{lname}[{scen}|code|float64]', lname, 'undecided', 'float64-jets', time.time() - t0, str(e))
                continue
            for label, lhs, rhs in rows:
                l = np.asarray(lhs, dtype=object)
                r = np.broadcast_to(np.asarray(rhs, dtype=object), l.shape)
                worst = 0.0
                for idx in (np.ndindex(*l.shape) if l.shape else [()]):
                    a = native.fval(l[idx] if l.shape else l[()])
                    b = native.fval(r[idx] if l.shape else r[()])
                    worst = max(worst, abs(a - b) / (1 + abs(b)))
                ok = worst <= tol
                R.numeric.append(dict(obligation=f'lemma.{lname}:{label}[{scen}]', residual=worst))
                R.ob(f'lemma.{lname}:{label}[{scen}|code|float64]', lname, 'numeric-ok' if ok else 'refuted', 'float64-jets',
                     (time.time() - t0) / max(len(rows), 1), f'residual {worst:.2e}', None if ok else [label],
                     bounded='numeric: one float64 sample point, residual tolerance 1e-9',
                     replay=(lambda o, fn=fn, label=label, scen=scen: native_lemma_replay(fn, label, scen, seed, relkw)))


def lemma_obligations(R, worlds, lemmas, scens, npoints=1, backend='pit-exact', kinds=('spec', 'code'), relkw=None):
    for scen in scens:
        for lname, fn in lemmas:
            for kind in kinds:
                t0 = time.time()
                results = {}
                undec = None
                unavailable = None
                for k in range(npoints):
                    for attempt in range(12):
                        F, U, env = worlds.get(scen, k) if attempt == 0 else worlds.fresh(scen, k, attempt)
                        try:
                            g = SpecGet(U) if kind == 'spec' else CodeGet(env, U, **(relkw or {}))
                            for label, lhs, rhs in fn(g):
                                bad = CT.compare(tens(lhs), rhs if not np.isscalar(rhs) else arr(rhs))
                                results.setdefault(label, []).extend(c for c, _ in bad)
                            break
                        except NeedResample:
                            continue
                        except SpecUnavailable as e:
                            unavailable = str(e)
                            break
                        except Undecided as e:
                            undec = str(e)
                            break
                        except ValueError as e:
                            if 'read-only' in str(e):
                                undec = None
                                results.setdefault('frame', []).append('in-place write: ' + str(e))
                                break
                            raise
                    else:
                        undec = 'resampling exhausted'
                secs = time.time() - t0
                if unavailable and not results:
                    R.notes.append(f'lemma {lname}[{scen}|{kind}]: not generated ({unavailable})')
                    continue
                if undec and not results:
                    R.ob(f'lemma.{lname}[{scen}|{kind}]', lname, 'undecided', backend, secs, undec)
                    continue
                n = max(len(results), 1)
                for label, bad in results.items():
                    R.ob(f'lemma.{lname}:{label}[{scen}|{kind}]', lname, 'refuted' if bad else 'discharged', backend,
                         secs / n, 'identity fails' if bad else '', sorted(set(bad)) or None,
                         witness=dict(scenario=scen, seed=worlds.seed),
                         replay=(None if kind == 'spec' else
                                 (lambda o, fn=fn, label=label, scen=scen: native_lemma_replay(fn, label, scen, worlds.seed, relkw))))
