"""C02 requests never modify user inputs or values already handed out.

(a) E1 frame obligation of every quantity method / helper, every scenario, every cache-state path:
    all arrays reachable from self[...], self.data[...] or an argument are read-only; an in-place
    write raises inside numpy and is the failed obligation `<f>:frame`; helper results must not alias
    arguments or cached arrays (callers update them in place).
(b) real chain: every value handed out earlier is re-checked (element identity) after each later request.
(c) over_time / process_single_timestep: caller's dict, lists and per-step arrays untouched (trace contract).
(d) save_data / read_data: argument objects untouched (obligations shared with C13).
(e) alias/effect scan (AST points-to) of aurel.time and aurel.reading: no mutating statement on a name
    that may alias a parameter or a kwargs value, outside the frame the contract allows.
"""
import ast
import inspect
import random
import textwrap
import time
import numpy as np

from engine.e1run import Worlds, function_obligations, all_keys
from engine.helpers import helper_obligations
from engine.chain import make_rel
from engine.jets import Undecided, NeedResample
from engine.universe import SpecUnavailable
from props.C01 import NO_CONTRACT, SCENS_QUICK, SCENS_THOROUGH

LEVEL = 'proof'

# frame clauses: parameters a function is allowed (documented) to update
ALLOWED = {
    ('aurel.time', 'process_single_timestep'): {'data'},          # "The function will add calculated variables to this dictionary"
    ('aurel.reading', 'transform_vars_ET_to_aurel_groups'): {'vars'},   # consumes its (local) argument list; only caller passes a fresh list
    ('aurel.reading', 'saveprint'): {'it_file'},
    ('aurel.reading', 'collect_overall_iterations'): {'its_available'},   # documented: "the input dictionary with an added 'overall' key"
    # internal helper; `variables` is a tuple key of an internal dict: `variables[vi] = ...` can only raise TypeError,
    # it cannot modify anything the user owns (recorded as an observation in DESIGN.md section 6)
    ('aurel.reading', 'read_ET_group_or_var'): {'variables'},
}
MUTATORS = {'append', 'extend', 'remove', 'insert', 'pop', 'clear', 'sort', 'reverse', 'update', 'setdefault', 'popitem',
            'add', 'discard', 'fill', 'resize', 'put', 'itemset'}


def alias_scan(R, module):
    """conservative: names that may alias a parameter / kwargs value; every mutation of such a name is an obligation"""
    import importlib
    mod = importlib.import_module(module)
    tree = ast.parse(inspect.getsource(mod))
    for fn in [n for n in tree.body if isinstance(n, ast.FunctionDef)]:
        t0 = time.time()
        R.under_contract(getattr(mod, fn.name))
        params = {a.arg for a in fn.args.args + fn.args.kwonlyargs}
        if fn.args.kwarg:
            kw = fn.args.kwarg.arg
        else:
            kw = None
        alias = set(params)

        def from_caller(v):
            if isinstance(v, ast.Name):
                return v.id in alias
            if isinstance(v, ast.Subscript):        # kwargs['x'], data[key]
                return from_caller(v.value) or (isinstance(v.value, ast.Name) and v.value.id == kw)
            if isinstance(v, ast.Call) and isinstance(v.func, ast.Attribute) and v.func.attr == 'get':
                return isinstance(v.func.value, ast.Name) and (v.func.value.id == kw or v.func.value.id in alias)
            return False
        changed = True
        while changed:
            changed = False
            for n in ast.walk(fn):
                if isinstance(n, ast.Assign) and from_caller(n.value):
                    for tg in n.targets:
                        if isinstance(tg, ast.Name) and tg.id not in alias:
                            alias.add(tg.id)
                            changed = True
        # a name re-bound to a fresh object before use is still flagged (conservative) unless every
        # assignment to it is from a fresh expression and it is not a parameter
        fresh_only = set()
        for name in list(alias - params):
            assigns = [n for n in ast.walk(fn) if isinstance(n, ast.Assign) and any(isinstance(t, ast.Name) and t.id == name for t in n.targets)]
            if assigns and not any(from_caller(a.value) for a in assigns):
                fresh_only.add(name)
        alias -= fresh_only
        allowed = ALLOWED.get((module, fn.name), set())
        viol = []
        for n in ast.walk(fn):
            tgt = None
            if isinstance(n, ast.AugAssign) and isinstance(n.target, ast.Name) and n.target.id in alias:
                tgt = (n.target.id, f'line {n.lineno}: {ast.unparse(n)[:70]}')
            elif isinstance(n, (ast.Assign, ast.AugAssign, ast.Delete)):
                tgs = n.targets if not isinstance(n, ast.AugAssign) else [n.target]
                for tg in tgs:
                    if isinstance(tg, ast.Subscript) and isinstance(tg.value, ast.Name) and tg.value.id in alias and tg.value.id != kw:
                        tgt = (tg.value.id, f'line {n.lineno}: {ast.unparse(n)[:70]}')
            elif (isinstance(n, ast.Call) and isinstance(n.func, ast.Attribute) and n.func.attr in MUTATORS
                  and isinstance(n.func.value, ast.Name) and n.func.value.id in alias and n.func.value.id != kw):
                tgt = (n.func.value.id, f'line {n.lineno}: {ast.unparse(n)[:70]}')
            if tgt and tgt[0] not in allowed:
                # `x = list(x)`-style rebinding of a parameter to a fresh copy before the mutation makes it local
                rebinds = [a for a in ast.walk(fn) if isinstance(a, ast.Assign) and a.lineno < n.lineno
                           and any(isinstance(t, ast.Name) and t.id == tgt[0] for t in a.targets) and not from_caller(a.value)]
                if rebinds and tgt[0] not in params:
                    continue
                if rebinds and tgt[0] in params:
                    continue
                viol.append(tgt[1])
        R.ob(f'{module.split(".")[-1]}.{fn.name}:frame (no mutation of a parameter / kwargs value)', fn.name,
             'refuted' if viol else 'discharged', 'ast-alias', time.time() - t0,
             'may mutate an object owned by the caller: ' + '; '.join(viol[:4]) if viol else '', viol or None)


def chain_snapshot_obligations(R, W, scen, seed, nhist=2):
    """(b) every value handed out is unchanged (same elements) after all later requests"""
    F, U, env = W.get(scen, 0)
    keys = []
    for k in all_keys():
        if k in NO_CONTRACT or k in U.inputs:
            continue
        try:
            U[k]
            keys.append(k)
        except (SpecUnavailable, Undecided, NeedResample):
            pass
    rng = random.Random(f'C02/{seed}')
    t0 = time.time()
    bad = []
    for h in range(nhist):
        order = keys[:]
        rng.shuffle(order)
        rel = make_rel(env, U)
        snaps = {}
        inputs = {k: (v, [id(e) for e in v.flat]) for k, v in rel.data.items() if isinstance(v, np.ndarray)}
        for k in order:
            try:
                v = rel[k]
            except (NeedResample, Undecided, SpecUnavailable):
                continue
            except ValueError as e:
                if 'read-only' in str(e):
                    bad.append(f'in-place write into an input while computing {k}')
                continue
            if isinstance(v, np.ndarray):
                snaps[k] = (v, [id(e) for e in v.flat])
            for kk, (arr, ids) in list(snaps.items()) + list(inputs.items()):
                if [id(e) for e in arr.flat] != ids:
                    bad.append(f'array returned for {kk} was modified in place while computing {k}')
                    snaps.pop(kk, None)
    R.bounded.append(dict(function='real chain snapshots', bound=f'{nhist} random orders over {len(keys)} keys, scenario {scen}'))
    R.ob(f'chain.snapshots[{scen}]:values-handed-out-never-change', '__getitem__', 'refuted' if bad else 'bounded-ok', 'bounded-native',
         time.time() - t0, '; '.join(bad[:4]), bad[:6] or None, bounded=f'{nhist} request orders over all keys')


def over_time_frame_obligations(R):
    from props import timevc
    fns, g, T = timevc.rebind_time()
    R.under_contract(T.over_time)
    t0 = time.time()
    bad = []
    n = 0
    for nsteps in (1, 2, 3):
        for vars_ in ([timevc.DESCR[0]], [{'c1': timevc.custom('c1', 2)}], [timevc.DESCR[1], {'c1': timevc.custom('c1', 1)}]):
            for est in ([], ['max'], ['max', {'myest': (lambda a: ('myest', a))}]):
                n += 1
                timevc.RecCore.instances.clear()
                arrs = {nm: [timevc.Arr(nm, s) for s in range(nsteps)] for nm in ('in0', 'in1')}
                data = {'it': list(range(nsteps)), **arrs}
                snap_lists = {k: list(v) for k, v in data.items()}
                vars_before = list(vars_)
                est_before = list(est)
                try:
                    fns['over_time'](data, type('FD', (), dict(Nx=2, Ny=2, Nz=2))(), vars=vars_, estimates=est, verbose=False)
                except Exception as e:
                    bad.append(f'raised {type(e).__name__}: {e}')
                    continue
                if set(data) != set(snap_lists) or any(len(data[k]) != len(snap_lists[k]) or any(a is not b for a, b in zip(data[k], snap_lists[k])) for k in snap_lists):
                    bad.append(f'caller\'s data dict changed (steps={nsteps}, vars={vars_})')
                if vars_ != vars_before or est != est_before:
                    bad.append('caller\'s vars / estimates list changed')
    R.bounded.append(dict(function='aurel.time.over_time', bound=f'{n} shapes: 1-3 steps x 3 vars lists x 3 estimate lists; contents opaque'))
    R.ob('time.over_time:frame (caller\'s dict, lists and per-step arrays untouched)', 'over_time', 'refuted' if bad else 'bounded-ok',
         'trace-contract', time.time() - t0, '; '.join(bad[:4]), bad[:6] or None, bounded=f'{n} shapes; all contents')


def estimator_and_maths_frame_obligations(R):
    """numeric helpers handed user arrays: est_functions (time.py) and the public functions of aurel.maths /
    aurel.numerical must not write into their arguments (read-only arrays + before/after comparison)."""
    import aurel.time as T
    import aurel.maths as M
    import aurel.numerical as N
    rng = np.random.default_rng(5)
    t0 = time.time()
    bad = []

    def ro(a):
        a = np.ascontiguousarray(a)
        a.flags.writeable = False
        return a
    base = rng.standard_normal((4, 5, 6))
    for name, f in T.est_functions.items():
        a = ro(base.copy())
        try:
            f(a)
        except ValueError as e:
            bad.append(f'est_functions[{name!r}] writes into its argument ({e})')
            continue
        if not np.array_equal(a, base):
            bad.append(f'est_functions[{name!r}] changed its argument')
    th = np.pi * (np.arange(6) + 0.5) / 6
    ph = 2 * np.pi * (np.arange(12) + 0.5) / 12
    TH, PH = np.meshgrid(th, ph, indexing='ij')
    fsph = rng.standard_normal(TH.shape) + 1j * rng.standard_normal(TH.shape)
    sym3 = base[:3, :3, 0][:, :, None, None, None] * np.ones((3, 3, 2, 2, 2))
    calls = {
        'maths.sYlm_coefficients': lambda: M.sYlm_coefficients(-2, 3, ro(fsph.copy()), ro(TH.copy()), ro(PH.copy()), ro(np.sin(TH) * 0.1), 0.1),
        'maths.sYlm_reconstruct': lambda: M.sYlm_reconstruct(0, 2, {(l, m): 1.0 + l for l in range(3) for m in range(-l, l + 1)}, ro(TH.copy()), ro(PH.copy())),
        'maths.sYlm': lambda: M.sYlm(-2, 2, 1, ro(TH.copy()), ro(PH.copy())),
        'maths.safe_division': lambda: M.safe_division(ro(base.copy()), ro(base.copy() * (base > 0))),
        'maths.determinant3/inverse3': lambda: (M.determinant3(ro(sym3.copy())), M.inverse3(ro(sym3.copy() + 3 * np.eye(3)[:, :, None, None, None]))),
        'maths.symmetrise/antisymmetrise': lambda: (M.symmetrise_tensor(ro(sym3.copy())), M.antisymmetrise_tensor(ro(sym3.copy()))),
        'maths.format_rank2_3': lambda: M.format_rank2_3(ro(sym3.copy())),
        'numerical.interpolate': lambda: N.interpolate(ro(base.copy()), (ro(np.arange(4.0)), ro(np.arange(5.0)), ro(np.arange(6.0))),
                                                       (ro(np.array([1.5, 2.0])), ro(np.array([0.5, 3.0])), ro(np.array([2.5, 4.0])))),
    }
    for name, fn in calls.items():
        try:
            fn()
        except ValueError as e:
            if 'read-only' in str(e) or 'not writeable' in str(e):
                bad.append(f'{name} writes into an argument ({e})')
            else:
                bad.append(f'{name} raised {e}')
    for n in ('sYlm_coefficients', 'sYlm_reconstruct', 'sYlm', 'safe_division'):
        R.under_contract(getattr(M, n))
    R.bounded.append(dict(function='est_functions / aurel.maths / aurel.numerical', bound='one call per function on read-only C-contiguous arrays (control flow of these helpers does not depend on the data)'))
    R.ob('time.est_functions + maths + numerical:frame (arguments are never written)', 'est_functions', 'refuted' if bad else 'bounded-ok', 'numpy-readonly',
         time.time() - t0, '; '.join(bad[:5]), bad[:8] or None, bounded=f'{len(T.est_functions) + len(calls)} functions')


FRAME_MODULES = ['aurel.core', 'aurel.maths', 'aurel.time', 'aurel.finitedifference', 'aurel.numerical', 'aurel.coresymbolic',
                 'aurel.utils.memory']


def two_instance_replay(hint='', N=22, cap=240):
    """two real AurelCore objects with different data on a production-sized grid (N^3 points -- well above every size
    the per-function obligations use): what the first one handed out must not change, nor share memory with, what the
    second one hands out later; then the same within one object across a change of iteration (over_time)."""
    import aurel
    par = dict(Nx=N, Ny=N, Nz=N, xmin=-1.0, ymin=-1.1, zmin=-0.9, dx=0.1, dy=0.1, dz=0.1)
    fd = aurel.FiniteDifference(par, boundary='no boundary', fd_order=4, verbose=False)
    x, y, z = fd.x, fd.y, fd.z

    def mk(a):
        rel = aurel.AurelCore(fd, verbose=False)
        one = np.ones_like(x)
        rel.data['gammadown3'] = np.array([[(1 + a * x * x) * one, 0.1 * a * y, 0 * one], [0.1 * a * y, 1 + 0.2 * a * z * z, 0.05 * x],
                                           [0 * one, 0.05 * x, 2 + a * np.sin(y)]])
        rel.data['Kdown3'] = np.array([[0.1 * a * x, 0 * one, 0.02 * z], [0 * one, 0.2 * one, 0 * one], [0.02 * z, 0 * one, 0.3 * a * y]])
        rel.data['alpha'] = 1 + 0.1 * a * x
        rel.data['betaup3'] = np.array([0.1 * x, 0.05 * a * z, 0.2 * one])
        rel.data['rho0'] = 1 + 0.1 * a * np.cos(x)
        rel.freeze_data()
        return rel
    relA, relB = mk(1.0), mk(-0.7)
    import aurel.core as Cm
    keys = [k for k in Cm.descriptions if hasattr(Cm.AurelCore, k)]
    src = {}
    for k in keys:
        try:
            src[k] = inspect.getsource(getattr(Cm.AurelCore, k))
        except Exception:
            src[k] = ''
    first = [k for k in keys if hint and hint in src[k]]
    order = first + [k for k in ('st_Riemann_down4', 'st_Weyl_down4', 's_Riemann_down3', 'gup4', 'Weyl_Psi', 'st_Gamma_udd4') if k in keys and k not in first]
    t0 = time.time()
    lines = [f'two real AurelCore objects with different data on a {N}^3 grid; keys requested in turn: {order[:8]}...']
    for k in order:
        if time.time() - t0 > cap:
            break
        try:
            a = relA[k]
            if not isinstance(a, np.ndarray):
                continue
            a0 = np.copy(a)
            b = relB[k]
        except Exception as e:
            lines.append(f'  {k}: raised {type(e).__name__}: {e}')
            continue
        if isinstance(b, np.ndarray) and np.shares_memory(a, b):
            lines.append(f'  {k}: the arrays handed out by the two objects share memory')
            return True, '\n'.join(lines)
        if not np.array_equal(a, a0, equal_nan=True):
            lines.append(f'  {k}: the array handed out by the first object changed after the second object\'s request (max |diff| {np.nanmax(np.abs(a - a0)):.3g})')
            return True, '\n'.join(lines)
    lines.append('  nothing handed out by the first object changed')
    return False, '\n'.join(lines)


def module_frame_obligations(R):
    """no function of the numerical modules keeps or reaches module-level mutable state (engine/modframe.py F1-F4): a value
    handed out earlier can then not be reached again through the module"""
    import importlib
    from engine.modframe import module_frame
    for mn in FRAME_MODULES:
        t0 = time.time()
        mod = importlib.import_module(mn)
        bad, nfun, state = module_frame(mod)
        hint = bad[0].split(':')[0] if bad else ''
        R.ob(f'{mn.split("aurel.")[-1]}.*:frame -- no function writes, memoises into or hands out module-level state', mn.split('.')[-1],
             'refuted' if bad else 'discharged', 'ast-frame', time.time() - t0,
             '; '.join(bad[:4]) or f'{nfun} functions; module-level containers: {state or "none"}', bad[:6] or None,
             replay=lambda o, hint=hint: two_instance_replay(hint))


def run(R):
    from engine.canary import run_canaries
    run_canaries(R, ('e1', 'symx'))
    module_frame_obligations(R)
    W = Worlds(R.seed)
    npts = 1
    scens = SCENS_QUICK if R.tier == 'quick' else SCENS_THOROUGH
    R.assume('A2', 'A6')
    R.trust('numpy raises on writes through a read-only array and views inherit the flag (A2)')
    R.ob_filter = lambda name, status: name.endswith(':frame') or status == 'undecided'
    for k in all_keys():
        if k in NO_CONTRACT:
            continue
        function_obligations(R, W, k, scens, npoints=npts)
    for s in ['onshell', 'fluid']:
        helper_obligations(R, W, s, npoints=npts)
    R.ob_filter = None
    chain_snapshot_obligations(R, W, 'onshell', R.seed, 2 if R.tier == 'quick' else 10)
    chain_snapshot_obligations(R, W, 'fluid', R.seed, 2 if R.tier == 'quick' else 10)
    over_time_frame_obligations(R)
    estimator_and_maths_frame_obligations(R)
    alias_scan(R, 'aurel.time')
    alias_scan(R, 'aurel.reading')
    # (d) save/read argument objects: the C13 harness on a few shapes
    from props import C13
    import engine.fsmodel as FM
    for sc in C13.scenario_list('quick')[:6]:
        agg, n = C13.run_scenario(sc, FM.rebind_reading)
        for label, (cnt, fail) in agg.items():
            if 'unchanged' in label:
                R.ob(f'reading.save_data[{sc["nd"]},{sc["vsel"]},{sc["slash"]}]:{label}', 'save_data', 'refuted' if fail else 'bounded-ok',
                     'z3-paths', 0.0, fail or '', [label] if fail else None, bounded='shape enumerated, values symbolic')
