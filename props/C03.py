"""C03 frozen inputs are never evicted; clean-up keeps its bookkeeping consistent (E2, z3)."""
from props import cachevc, timevc

LEVEL = 'proof'


def run(R):
    from engine.canary import run_canaries
    run_canaries(R, ('symx',))
    R.assume('A1', 'A6', 'A9')
    R.trust('finite-set facts for the termination variant: a map with a present key has cardinality >= 1; deleting a present key lowers it by 1')
    R.trust('requires: var_importance values >= 0; clear_cache_every_nbr_calc >= 1; memory_threshold_inGB > 0; Nx,Ny,Nz >= 1; users do not delete entries of data by hand (I1 on entry)')
    cachevc.get_size_obligations(R)
    cachevc.cleanup_obligations(R)
    cachevc.getitem_obligations(R)
    cachevc.freeze_obligations(R)
    timevc.timestep_freeze_obligations(R)
