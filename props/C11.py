"""C11 Einstein Toolkit output is read back exactly for any file and process layout.

Proved (unbounded, z3):  fixij (axis reversal), ghost trimming (both copies of the slicing statement, cut out of
the AST, for all array sizes and all ghost widths >= 1).
Exhaustive (finite tables): aurel<->ET name maps and tensor expansion order.
E2, symbolic iteration values and restart ranges (bounded counts): restart selection and flattening of
read_ET_data -- each requested iteration comes from the latest restart containing it, rows in the order of
the sorted requested iterations, times from the same restart/row.
Bounded stand-in (never counted as proved): join_chunks on token arrays for all rectilinear decompositions
with <= 3 pieces per axis and many key orders; the full reader on generated directories (4 layouts x
decompositions x ghost widths x overlapping restarts x levels x file orders), oracle = generator truth.
"""
import os
import ast
import inspect
import itertools
import random
import shutil
import tempfile
import textwrap
import time
import numpy as np
import z3

from engine import symx as SX
from engine.symx import Z, SArr, base_array, explore, prove, to_z3
from engine.e1 import RebMod
from engine import etgen
from engine import fsmodel as FM
from engine.fsmodel import FS
from props import etmodel

LEVEL = 'other'


def discharge(R, prefix, fn, paths, backend='z3', replay=None):
    agg = {}
    for res, c in paths:
        for nm, goal, pc in c.obls:
            v, model, secs = prove(pc, goal)
            agg.setdefault(nm, []).append((v, str(model)[:300], secs))
    for nm, rs in agg.items():
        inv = [m for v, m, _ in rs if v == 'invalid']
        unk = [m for v, m, _ in rs if v == 'unknown']
        R.ob(f'{prefix}:{nm}', fn, 'refuted' if inv else ('undecided' if unk else 'discharged'), backend, sum(s for _, _, s in rs),
             ('counter-model ' + inv[0]) if inv else (unk[0] if unk else f'{len(rs)} path(s)'), [nm] if inv else None, replay=replay)
    if not agg:
        R.ob(f'{prefix}:generated-obligations', fn, 'undecided', backend, 0.0, 'no verification condition generated')


def fixij_obligations(R):
    import aurel.reading as Rm
    R.under_contract(Rm.fixij)
    shim = SX.ShimNPz()
    mod = RebMod(Rm, {'np': shim})

    def run():
        c = SX.ctx()
        dims = [z3.Int(n) for n in ('nz', 'ny', 'nx')]
        for d in dims:
            c.assume(d >= 1)
        f, F = base_array('F', tuple(dims))
        out = mod.fixij(f)
        c.require('shape reversed to (nx, ny, nz)', z3.And(len(out.shape) == 3, *[to_z3(a) == b for a, b in zip(out.shape, reversed(dims))]))
        I = [c.new_int(n) for n in 'xyz']
        for i, d in zip(I, reversed(dims)):
            c.assume(z3.And(i >= 0, i < d))
        c.require('fixij(a)[x,y,z] == a[z,y,x]', to_z3(out.at(tuple(I)), real=True) == F(I[2], I[1], I[0]))
    discharge(R, 'reading.fixij', 'fixij', explore(run))


class _DSet(SArr):
    """h5py dataset: a symbolic 3-D array (z, y, x) plus its Carpet attributes"""

    def __init__(self, name, dims, ghosts, iorigin):
        f, F = base_array(name, tuple(dims))
        SArr.__init__(self, f.shape, f.fn, name)
        self.F, self.dims, self.ghosts, self.iorigin = F, dims, ghosts, iorigin
        self.attrs = {'cctk_nghostzones': [Z(ghosts['x']), Z(ghosts['y']), Z(ghosts['z'])], 'iorigin': np.array(iorigin), 'time': 1.5}


class _H5:
    def __init__(self, files):
        self.files = files

    def File(self, path, mode='r'):
        outer = self

        class F:
            def __enter__(s):
                return s

            def __exit__(s, *a):
                return False

            def keys(s):
                return list(outer.files[path].keys())

            def __getitem__(s, k):
                return outer.files[path][k]

            def __contains__(s, k):
                return k in outer.files[path]
        if path not in self.files:
            raise FileNotFoundError(path)
        return F()


def ghost_trim_obligations(R):
    """read_ET_group_or_var / read_ET_checkpoints: the REAL functions run on an h5py model whose datasets are symbolic
    arrays of symbolic size with symbolic ghost widths (>= 1); join_chunks and fixij are replaced by recording stubs
    (their own contracts are separate obligations).  ensures: what is handed to join_chunks for each variable is
    {iorigin of the chunk: dataset[gz:nz-gz, gy:ny-gy, gx:nx-gx]} with exactly the chunks of the requested iteration,
    level (and time level 0); the time attribute is collected once per iteration.  No pattern is matched on the source."""
    import aurel.reading as Rm
    for fname in ('read_ET_group_or_var', 'read_ET_checkpoints'):
        R.under_contract(getattr(Rm, fname))
        for chunked in (False, True, 'single piece labelled c=0', 'single per-process file'):
            def run(fname=fname, chunked=chunked):
                c = SX.ctx()
                dsets, decoys = {}, {}
                nch = 2 if chunked is True else 1
                for ci in range(nch):
                    dims = [c.new_int(f'n{a}{ci}') for a in 'zyx']
                    gs = {a: c.new_int(f'ghost_{a}{ci}') for a in 'xyz'}
                    for a, d in zip('zyx', dims):
                        c.assume(gs[a] >= 1)
                        c.assume(d >= 2 * gs[a] + 1)
                    suffix = f' c={ci}' if chunked in (True, 'single piece labelled c=0') else ''
                    dsets[f'ADMBASE::alp it=8 tl=0 rl=1{suffix}'] = _DSet(f'F{ci}', dims, gs, (0, 0, 7 * ci))
                    # decoys: other iteration, other level, other time level, other variable
                    for key in (f'ADMBASE::alp it=16 tl=0 rl=1{suffix}', f'ADMBASE::alp it=8 tl=0 rl=0{suffix}', f'ADMBASE::betax it=8 tl=0 rl=1{suffix}'):
                        decoys[key] = _DSet('decoy', dims, gs, (0, 0, 7 * ci))
                    if fname == 'read_ET_checkpoints':
                        decoys[f'ADMBASE::alp it=8 tl=1 rl=1{suffix}'] = _DSet('decoy', dims, gs, (0, 0, 7 * ci))
                content = {'Parameters and Global Attributes': None, **decoys, **dsets}
                captured = []
                if fname == 'read_ET_group_or_var':
                    path = '/s/run/output-0000/run/alp.file_0.h5' if chunked == 'single per-process file' else '/s/run/output-0000/run/alp.h5'
                else:
                    path = '/s/run/output-0000/run/checkpoint.chkpt.it_8.h5'
                mod = RebMod(Rm, {'np': SX.ShimNPz(), 'h5py': _H5({path: content}), 'print': lambda *a, **k: None})

                class _OSP:
                    sep = '/'

                    def exists(self, p):
                        return p == path

                    def basename(self, p):
                        return p.rsplit('/', 1)[-1]

                    def __getattr__(self, n):
                        import os
                        return getattr(os.path, n)

                class _OS:
                    path = _OSP()

                    def __getattr__(self, n):
                        import os
                        return getattr(os, n)

                class _Glob:
                    def glob(self, pat):
                        return [path]
                mod._g.update(os=_OS(), glob=_Glob())

                def join_stub(chunks, **kw):
                    captured.append(chunks)
                    return ('joined', len(captured) - 1)
                mod._g['join_chunks'] = join_stub
                mod._g['fixij'] = lambda x: ('fixed', x)
                try:
                    if fname == 'read_ET_group_or_var':
                        out = mod.read_ET_group_or_var(['alp'], [path], 0 if chunked == 'single per-process file' else 'in file', it=[8], rl=1)
                    else:
                        out = mod.read_ET_checkpoints({'simpath': '/s/', 'simname': 'run'}, ['alpha'], it=[8], rl=1, restart=0, verbose=False)
                except (SX.PathAbort, SX.Infeasible, SX.PathEnd):
                    raise
                except Exception as e:
                    c.require(f'a supported layout is read without raising (got {type(e).__name__}: {str(e)[:120]})', z3.BoolVal(False))
                    return
                c.require('join_chunks is called once, for the requested variable', z3.BoolVal(len(captured) == 1))
                if len(captured) != 1:
                    return
                chunks = captured[0]
                want = {tuple(int(x) for x in d.iorigin): d for d in dsets.values()}
                c.require('the chunks handed over are exactly those of (variable, iteration, level[, tl=0]), keyed by their iorigin',
                          z3.BoolVal(set(tuple(int(x) for x in k) for k in chunks) == set(want)))
                for k, arr in chunks.items():
                    d = want.get(tuple(int(x) for x in k))
                    if d is None or not isinstance(arr, SArr):
                        c.require('every chunk is an array of the file', z3.BoolVal(False))
                        continue
                    g = d.ghosts
                    c.require('chunk has shape (nz-2gz, ny-2gy, nx-2gx)',
                              z3.And(len(arr.shape) == 3, *[to_z3(s_) == dd - 2 * g[a] for s_, dd, a in zip(arr.shape, d.dims, 'zyx')]))
                    if len(arr.shape) != 3:
                        continue
                    I = [c.new_int(n) for n in 'kji']
                    for i, dd, a in zip(I, d.dims, 'zyx'):
                        c.assume(z3.And(i >= 0, i < dd - 2 * g[a]))
                    c.require('chunk[k,j,i] == dataset[k+gz, j+gy, i+gx]', to_z3(arr.at(tuple(I)), real=True) == d.F(I[0] + g['z'], I[1] + g['y'], I[2] + g['x']))
                tcol = out.get('t')
                c.require('one time value per iteration, the time attribute of the data', z3.BoolVal(list(tcol) == [1.5]))
                c.require('the joined, index-fixed array is returned under the aurel name', z3.BoolVal(out.get('alpha') == [('fixed', ('joined', 0))]))
            label = '2 chunks' if chunked is True else 'no chunks' if chunked is False else chunked
            if fname == 'read_ET_checkpoints' and chunked not in (True, False):
                continue
            try:
                paths = explore(run)
            except SX.PathAbort as e:
                R.ob(f'reading.{fname}[ghost trimming, {label}]:paths', fname, 'undecided', 'z3', 0.0, str(e))
                continue
            discharge(R, f'reading.{fname}[ghost trimming, {label}]', fname, paths)
    R.trust('requires ghost width >= 1 on every axis (Carpet writes the ghost zones it reports); a width of 0 would make a[0:-0] empty')


def name_map_obligations(R):
    import aurel.reading as Rm
    import aurel.core as C
    import aurel.maths as M
    for n in ('transform_vars_aurel_to_ET', 'transform_vars_ET_to_aurel', 'transform_vars_tensor_to_scalar', 'transform_vars_ET_to_aurel_groups'):
        R.under_contract(getattr(Rm, n))
    t0 = time.time()
    bad = []
    a2e, e2a, t2s = Rm.aurel_to_ET_varnames, Rm.ET_to_aurel_varnames, Rm.aurel_tensor_to_scalar
    # ET -> aurel o aurel -> ET = id on every scalar aurel name
    for a, es in a2e.items():
        if len(es) == 1:
            back = Rm.transform_vars_ET_to_aurel(es[0])
            if back != a and not (a in ('velx', 'vely', 'velz', 'Momentumx', 'Momentumy', 'Momentumz', 'Weyl_Psi4r', 'Weyl_Psi4i') and back == a):
                if Rm.transform_vars_aurel_to_ET([back]) != es:
                    bad.append(f'{a} -> {es} -> {back}')
    for e, a in e2a.items():
        if Rm.transform_vars_aurel_to_ET([a]) != [e]:
            bad.append(f'ET {e} -> aurel {a} -> ET {Rm.transform_vars_aurel_to_ET([a])}')
    # tensor expansion order = component order of maths.format_rank2_3 / np.array([betax,betay,betaz])
    order6 = ['xx', 'xy', 'xz', 'yy', 'yz', 'zz']
    for tname, pre in (('gammadown3', 'g'), ('Kdown3', 'k')):
        if t2s[tname] != [pre + o for o in order6]:
            bad.append(f'{tname} expands to {t2s[tname]}')
    for tname, comps in (('betaup3', ['betax', 'betay', 'betaz']), ('dtbetaup3', ['dtbetax', 'dtbetay', 'dtbetaz']), ('velup3', ['velx', 'vely', 'velz'])):
        if t2s[tname] != comps:
            bad.append(f'{tname} expands to {t2s[tname]}')
    # tensor -> scalar -> ET agrees with tensor -> ET
    for tname in t2s:
        via = Rm.transform_vars_aurel_to_ET(Rm.transform_vars_tensor_to_scalar([tname]))
        if via != Rm.transform_vars_aurel_to_ET([tname]):
            bad.append(f'{tname}: via scalars {via} != direct {Rm.transform_vars_aurel_to_ET([tname])}')
    # grouping inverts expansion, leaves the rest, does not depend on order
    for tname in ('gammadown3', 'betaup3', 'Kdown3'):
        lst = list(reversed(a2e[tname])) + ['zzz']
        got = Rm.transform_vars_ET_to_aurel_groups(list(lst))
        if tname not in got or 'zzz' not in got or any(e in got for e in a2e[tname]):
            bad.append(f'grouping {lst} -> {got}')
    # every scalar component name is a documented aurel key
    for tname, comps in t2s.items():
        for cpt in comps:
            if cpt not in C.descriptions and cpt not in ('Weyl_Psi4r', 'Weyl_Psi4i'):
                bad.append(f'{cpt} (component of {tname}) is not a documented key')
    R.ob('reading.name-maps:ET<->aurel maps are mutually inverse; tensor expansion order = (xx,xy,xz,yy,yz,zz)/(x,y,z)', 'transform_vars_*',
         'refuted' if bad else 'discharged', 'finite-exhaustive', time.time() - t0, '; '.join(bad[:5]), bad[:8] or None)


def join_chunks_obligations(R, tier):
    import aurel.reading as Rm
    R.under_contract(Rm.join_chunks)
    rng = random.Random(R.seed)
    t0 = time.time()
    bad, n = [], 0
    sizes = (13, 12, 11)       # (nx, ny, nz), non-cubic; origins reach two digits (numeric, not lexicographic, order)
    G = np.arange(sizes[2] * sizes[1] * sizes[0]).reshape(sizes[2], sizes[1], sizes[0])      # [z, y, x], unique tokens
    cutsets = list(itertools.product((1, 2, 3), repeat=3)) + [(4, 1, 1), (1, 5, 1), (1, 1, 4), (4, 2, 3), (2, 5, 2), (3, 2, 6), (5, 4, 4), (12, 1, 1), (1, 11, 2)]
    if tier != 'quick':
        cutsets += [c_ for c_ in itertools.product((1, 4, 5), repeat=3) if c_ != (1, 1, 1)]
    for cuts in cutsets:
        boxes = list(itertools.product(etgen.splits(sizes[0], cuts[0]), etgen.splits(sizes[1], cuts[1]), etgen.splits(sizes[2], cuts[2])))
        keys = [(bx[0][0], bx[1][0], bx[2][0]) for bx in boxes]
        nb = len(boxes)
        if nb <= 4:
            orders = list(itertools.permutations(range(nb)))
        else:
            orders = [list(range(nb)), list(reversed(range(nb)))] + [rng.sample(range(nb), nb) for _ in range(4 if tier == 'quick' else 12)]
        for order in orders:
            n += 1
            cut = {}
            for bi in order:
                (x0, x1), (y0, y1), (z0, z1) = boxes[bi]
                cut[keys[bi]] = G[z0:z1, y0:y1, x0:x1].copy()
            try:
                out = Rm.join_chunks(cut)
                ok = out.shape == G.shape and np.array_equal(out, G)
            except Exception as e:
                ok = False
                out = f'{type(e).__name__}: {e}'
            if not ok:
                bad.append(f'cuts (x,y,z)={cuts}, key order {[keys[b] for b in order][:6]}: ' + (out if isinstance(out, str) else f'shape {out.shape}'))
    R.bounded.append(dict(function='aurel.reading.join_chunks', bound=f'{n} cases on a 13x12x11 grid: every decomposition with 1-3 pieces per axis plus decompositions with 4-12 pieces on an axis (up to 80 chunks; thorough: {{1,4,5}}^3), all key orders for <= 4 chunks, sampled beyond; unique cell tokens'))
    R.ob('reading.join_chunks:result == global array for every rectilinear decomposition and key order', 'join_chunks',
         'refuted' if bad else 'bounded-ok', 'bounded-native', time.time() - t0, '; '.join(bad[:4]), bad[:8] or None,
         bounded=f'{n} decompositions/orders')


def restart_selection_obligations(R, tier):
    """read_ET_data (split_per_it=False): symbolic iteration values and restart ranges"""
    import aurel.reading as Rm
    R.under_contract(Rm.read_ET_data)
    # (restarts, requested iterations); (2, 3) is the smallest shape in which a request straddles a nested restart
    shapes = [(2, 2), (3, 2), (2, 3)] if tier == 'quick' else [(2, 2), (3, 2), (2, 3), (3, 3), (2, 4)]
    agg = {}
    npaths = 0
    t0 = time.time()
    for nres, nit in shapes:
        def body():
            c = SX.ctx()
            fs = FS()
            lo = [Z.int(f'lo{r}') for r in range(nres)]
            hi = [Z.int(f'hi{r}') for r in range(nres)]
            cat = {}
            for r in range(nres):
                c.assume(z3.And(lo[r].e >= 0, lo[r].e <= hi[r].e))
                cat[r] = {'its available': [lo[r], hi[r]], 'var available': ['alpha', 'betaup3'], 'checkpoints': []}
            cat['overall'] = {}
            its = [Z.int(f'q{k}') for k in range(nit)]
            for q in its:
                c.assume(q.e >= 0)
            truth = etmodel.Truth()
            log = []
            fns, g = etmodel.build(fs, cat, False, truth, log)
            out = []
            try:
                d = fns['read_ET_data'](param_model(), it=list(its), vars=['alpha'], rl=0, split_per_it=False, verbose=False)
            except IndexError:
                # no requested iteration exists in any restart: datar is empty
                found = [q for q in its if etmodel.expected_restart(cat, q) is not None]
                out.append(('raises only when no requested iteration exists anywhere', not found, 'IndexError although some iteration is available'))
                return out
            exp_rows = []
            seen = []
            for q in sorted(its, key=etmodel.FM_key):
                if any(bool(q == s) for s in seen):
                    continue
                seen.append(q)
                r = etmodel.expected_restart(cat, q)
                if r is not None:
                    exp_rows.append((q, r))
            out.append(('one row per requested iteration that exists, in increasing order',
                        len(d['it']) == len(exp_rows) and all(bool(a == b[0]) for a, b in zip(d['it'], exp_rows)),
                        f'rows {d["it"]} expected {[e[0] for e in exp_rows]}'))
            if len(d['it']) == len(exp_rows):
                for j, (q, r) in enumerate(exp_rows):
                    got = d['alpha'][j]
                    ok = getattr(got, 'quad', None) is not None and got.quad[0] == 'alpha' and got.quad[2] == r and bool(got.quad[1] == q)
                    out.append(('each iteration is taken from the latest restart containing it', ok, f'it {q}: got {got}, expected restart {r}'))
                    tq = d['t'][j]
                    ok = getattr(tq, 'quad', None) is not None and tq.quad[2] == r and bool(tq.quad[1] == q)
                    out.append(('the time entry comes from the same restart and iteration as the data', ok, f'it {q}: t = {tq}'))
            return out
        paths = explore(body, max_paths=20000)
        npaths += len(paths)
        for out, c in paths:
            if out is None:
                continue
            for label, ok, detail in out:
                a = agg.setdefault(label, [0, None])
                a[0] += 1
                if not ok and a[1] is None:
                    s = z3.Solver()
                    s.add(*c.pc)
                    s.check()
                    a[1] = f'{detail}; {nres} restarts, model {s.model()}'
    R.paths += npaths
    R.bounded.append(dict(function='aurel.reading.read_ET_data (restart selection)', bound=f'restarts x requested iterations in {shapes}; ranges and iteration values symbolic; {npaths} paths'))
    for label, (cnt, fail) in agg.items():
        R.ob(f'reading.read_ET_data[split_per_it=False]:{label}', 'read_ET_data', 'refuted' if fail else 'bounded-ok', 'z3-paths',
             (time.time() - t0) / max(len(agg), 1), fail or f'{cnt} checks', [label] if fail else None,
             bounded='counts enumerated; restart ranges and iteration values symbolic', replay=native_dir_replay)


def param_model():
    return {'simulation': 'ET', 'simpath': '/sims/', 'simname': 'run'}


def directory_cases(tier):
    cases = []
    layouts = list(itertools.product(('onefile', 'proc'), ('ungrouped', 'grouped')))
    cutsets = [(1, 1, 1), (2, 1, 1), (1, 3, 1), (1, 1, 2), (2, 2, 1)] + ([(2, 2, 2), (3, 2, 1), (3, 3, 3), (1, 2, 3)] if tier != 'quick' else [(2, 2, 2)])
    for li, layout in enumerate(layouts):
        for ci, cuts in enumerate(cutsets):
            ghost = 1 + (li + ci) % 3
            rev = (ci % 2 == 1)
            cases.append(dict(layout=layout, cuts=cuts, ghost=ghost, reverse=rev))
        # a single piece written the way a one-process run writes it: per-process file name and / or chunk label c=0
        for sac in ((True, False), (True, True), (False, True)):
            if layout[0] == 'proc' or not sac[0]:
                cases.append(dict(layout=layout, cuts=(1, 1, 1), ghost=2, reverse=False, single_as_chunk=sac))
        # simulation names made of the words the readers look for in file names
        for nm in ('run.file_3.x', 'it_4.rl=1 c=2', 'checkpoint.chkpt'):
            cases.append(dict(layout=layout, cuts=(2, 1, 1), ghost=1, reverse=False, simname=nm))
        cases.append(dict(layout=layout, cuts=(1, 2, 1), ghost=1 + li % 2, reverse=False, nested=True))
        # a re-run from the same checkpoint that stopped early: restart ranges do not end in increasing order
        cases.append(dict(layout=layout, cuts=(2, 1, 1), ghost=1 + li % 2, reverse=False, nonmono=True))
    return cases


def run_directory_case(case, seed=0):
    """generate, read through the real public reader, compare with the generator truth -> list of failures"""
    import aurel
    root = tempfile.mkdtemp(prefix='c11_')
    bad = []
    try:
        nchunks = len(list(itertools.product(*[etgen.splits(n, c) for n, c in zip((6, 5, 4), case['cuts'])])))
        order = list(reversed(range(nchunks))) if case['reverse'] else None
        restarts = [(0, [0, 2, 4], 0), (1, [4, 6], 1), (2, [6, 8], 2)]
        latest = {0: 0, 2: 0, 4: 1, 6: 2, 8: 2}
        requests = (([8, 0, 4], ['alpha', 'betaup3'], 0), ([6, 2], ['betax', 'rho0'], 1), ([4], ['gxx'], 0))
        if case.get('nested'):
            # a short re-run in the middle of a longer, earlier restart: requests straddling it
            restarts = [(0, [0, 2, 4, 6, 8, 10], 0), (1, [4, 6], 1)]
            latest = {0: 0, 2: 0, 4: 1, 6: 1, 8: 0, 10: 0}
            requests = (([2, 4, 10], ['alpha'], 0), ([0, 6, 8], ['betax', 'rho0'], 1), ([10, 8, 6, 4, 2, 0], ['betaup3'], 0), ([6], ['gxx'], 0))
        if case.get('nonmono'):
            restarts = [(0, [0, 2, 4, 6, 8], 0), (1, [4, 6, 8, 10, 12], 1), (2, [4, 6, 8], 2)]
            latest = {0: 0, 2: 0, 4: 2, 6: 2, 8: 2, 10: 1, 12: 1}
            requests = (([6, 12], ['alpha'], 0), ([4, 6, 10], ['betax', 'rho0'], 1), ([12, 0, 8, 2], ['betaup3'], 0), ([6], ['gxx'], 0))
        sim = case.get('simname', 'sim')
        truth = etgen.make_sim(root, sim, case['layout'], restarts=restarts, shape=(6, 5, 4), cuts=case['cuts'], ghost=case['ghost'],
                               rls=(0, 1), variables=('alp', 'betax', 'betay', 'betaz', 'gxx', 'gxy', 'gxz', 'gyy', 'gyz', 'gzz', 'rho'), chunk_order=order,
                               single_as_chunk=case.get('single_as_chunk', (False, False)))
        p = etgen.param_for(root, sim)
        for its, vars_, rl in requests:
            d = aurel.read_data(p, it=list(its), vars=list(vars_), rl=rl, split_per_it=False, verbose=False, skip_last=False)
            if [int(i) for i in d['it']] != sorted(its):
                bad.append(f'{case}: it column {list(d["it"])} for request {its}')
                continue
            want = []
            for v in vars_:
                want += {'betaup3': ['betax', 'betay', 'betaz']}.get(v, [v])
            for av in want:
                ev = {'alpha': 'alp', 'rho0': 'rho'}.get(av, av)
                if av not in d:
                    bad.append(f'{case}: variable {av} missing from the result {list(d)}')
                    continue
                for j, it in enumerate(sorted(its)):
                    exp = truth[(ev, it, rl, latest[it])]
                    got = d[av][j]
                    if got is None or np.shape(got) != exp.shape or not np.array_equal(got, exp):
                        bad.append(f'{case}: {av} at it={it} rl={rl}: ' + ('None' if got is None else f'shape {np.shape(got)} vs {exp.shape}' if np.shape(got) != exp.shape
                                                                          else f'{int(np.sum(np.asarray(got) != exp))} cells differ (restart digit {int(np.asarray(got).flat[0] // 1e11) % 10})'))
                if not np.allclose(d['t'], [1.0 + 0.5 * it for it in sorted(its)]):
                    bad.append(f'{case}: times {d["t"]}')
    except Exception as e:
        import traceback
        bad.append(f'{case}: raised {type(e).__name__}: {e} :: {traceback.format_exc()[-300:]}')
    finally:
        shutil.rmtree(root, ignore_errors=True)
    return bad


def directory_obligations(R, tier):
    import multiprocessing as mp
    import aurel.reading as Rm
    for n in ('read_ET_variables', 'read_ET_group_or_var', 'get_content', 'iterations', 'read_data'):
        R.under_contract(getattr(Rm, n))
    cases = directory_cases(tier)
    t0 = time.time()
    with mp.Pool(min(14, len(cases))) as pool:
        res = pool.map(run_directory_case, cases, chunksize=1)
    bad = [b for r in res for b in r]
    R.bounded.append(dict(function='aurel.read_data on generated ET directories', bound=f'{len(cases)} directories: 4 layouts x {len(cases) // 4} decompositions (<= 3 pieces/axis), ghost widths 1-3, forward/reversed chunk-file order, 3 restarts with overlapping iterations, 2 levels, 3 (it, vars) requests incl. tensor names; injective cell encoding'))
    R.ob('reading.read_data[ET]:returned arrays == stored interior data for every layout / decomposition / restart overlap', 'read_ET_data',
         'refuted' if bad else 'bounded-ok', 'bounded-native', time.time() - t0, '; '.join(bad[:3]), bad[:8] or None,
         bounded=f'{len(cases)} generated directories', replay=native_dir_replay)


def checkpoint_case(args):
    simname, perproc, cuts = args
    import aurel
    root = tempfile.mkdtemp(prefix='c11c_')
    bad = []
    try:
        etgen.make_sim(root, simname, ('onefile', 'ungrouped'), restarts=[(0, [0, 4, 8, 16], 0)], shape=(6, 5, 4), cuts=(1, 1, 1), ghost=2, rls=(0,), variables=('alp', 'betax'))
        truth = etgen.make_checkpoints(root, simname, 0, [0, 8, 16], perproc, cuts)
        p = etgen.param_for(root, simname)
        for its in ([8], [0, 16], [16, 8, 0]):
            d = aurel.read_data(p, it=list(its), vars=['alpha', 'betax'], rl=0, usecheckpoints=True, verbose=False, skip_last=False)
            for av, ev in (('alpha', 'alp'), ('betax', 'betax')):
                for j, it in enumerate(sorted(its)):
                    if av not in d or d[av][j] is None or not np.array_equal(d[av][j], truth[(ev, it)]):
                        bad.append(f'simulation {simname!r}, per-process files {perproc}, cuts {cuts}, it={its}: {av} at it={it} is not the checkpointed data')
            if not np.allclose(d['t'], [1.0 + 0.5 * it for it in sorted(its)]):
                bad.append(f'simulation {simname!r}: checkpoint times {d["t"]} for it={its}')
    except Exception as e:
        bad.append(f'simulation {simname!r}, per-process files {perproc}, cuts {cuts}: raised {type(e).__name__}: {e}')
    finally:
        shutil.rmtree(root, ignore_errors=True)
    return bad


def checkpoint_cases():
    return [(nm, pp, cuts) for nm in ('sim', 'orbit_8.run', 'it_16.it_0.x') for pp, cuts in ((False, (1, 1, 1)), (False, (2, 1, 1)), (True, (2, 2, 1)))]


def checkpoint_obligations(R):
    import multiprocessing as mp
    import aurel.reading as Rm
    R.under_contract(Rm.read_ET_checkpoints)
    cases = checkpoint_cases()
    t0 = time.time()
    with mp.Pool(min(9, len(cases))) as pool:
        res = pool.map(checkpoint_case, cases, chunksize=1)
    bad = [b for r in res for b in r]
    R.bounded.append(dict(function='aurel.read_data(usecheckpoints=True) on generated checkpoint files', bound=f'{len(cases)} directories: 3 simulation names (incl. names containing it_<n>.), one file / per-process files, 1-4 pieces, time levels 0 and 1, 3 requests'))
    R.ob('reading.read_ET_checkpoints:returned arrays == checkpointed interior data (tl=0), for any simulation name', 'read_ET_checkpoints',
         'refuted' if bad else 'bounded-ok', 'bounded-native', time.time() - t0, '; '.join(bad[:3]), bad[:6] or None,
         bounded=f'{len(cases)} generated directories',
         replay=lambda o: (lambda b: (bool(b), '; '.join(b[:3]) or 'generated checkpoint directories read back exactly'))([x for cse in checkpoint_cases()[:6] for x in checkpoint_case(cse)]))


def native_dir_replay(o=None):
    bad = []
    cases = directory_cases('quick')
    for case in [c for c in cases if c.get('nonmono') or c.get('nested') or c.get('single_as_chunk') or c.get('simname')] + cases[:8]:
        bad += run_directory_case(case)
        if bad:
            break
    return bool(bad), ('; '.join(bad[:4]) if bad else 'the first 8 generated directories read back exactly')


def regrid_cases(seed=0):
    """one output file whose iterations were written with DIFFERENT process decompositions (Carpet regrids / re-balances between
    outputs): component numbers permuted, cut position moved, cut axis changed, number of pieces changed.  The real
    read_ET_group_or_var must return, for every request (single and several iterations, any order), the stored interior data."""
    import h5py
    import aurel.reading as Rm
    bad, n = [], 0
    rng = np.random.default_rng(seed)
    for g in (1, 2, 3):
        N = (7, 6, 8)
        T = tuple(q + 2 * g for q in N)
        lo = (g, g, g)
        hi = tuple(g + q for q in N)
        # per iteration: list of (lo, hi) interior boxes in (x, y, z), in the order of their component number c
        def cut(axis, at, flip=False):
            a = (lo, tuple(at if k == axis else hi[k] for k in range(3)))
            b = (tuple(at if k == axis else lo[k] for k in range(3)), hi)
            return [b, a] if flip else [a, b]
        layouts = {0: cut(0, g + 3), 8: cut(0, g + 4, flip=True), 16: cut(1, g + 2), 24: cut(2, g + 5, flip=True),
                   32: [(lo, (g + 2, hi[1], hi[2])), ((g + 4, lo[1], lo[2]), hi), ((g + 2, lo[1], lo[2]), (g + 4, hi[1], hi[2]))]}
        d = tempfile.mkdtemp(prefix='c11r_')
        try:
            fp = os.path.join(d, 'rho.xyz.h5')
            truth, times = {}, {}
            with h5py.File(fp, 'w') as f:
                for it, boxes in layouts.items():
                    G = rng.normal(size=T)
                    truth[it], times[it] = G[g:-g, g:-g, g:-g], 0.25 * it
                    for c_, (l_, h_) in enumerate(boxes):
                        block = G[tuple(slice(a - g, b + g) for a, b in zip(l_, h_))]
                        ds = f.create_dataset(f'HYDROBASE::rho it={it} tl=0 rl=0 c={c_}', data=np.transpose(block, (2, 1, 0)))
                        ds.attrs['cctk_nghostzones'] = np.array([g, g, g], dtype=np.int32)
                        ds.attrs['iorigin'] = np.array([a - g for a in l_], dtype=np.int32)
                        ds.attrs['time'] = times[it]
            for its in ([0], [8], [32], [0, 8], [8, 16], [16, 24], [0, 8, 16, 24, 32], [24, 32], [0, 32]):
                n += 1
                try:
                    out = Rm.read_ET_group_or_var(['rho'], [fp], 'in file', it=list(its), rl=0)
                except Exception as e:
                    bad.append(f'ghost width {g}, request it={its} on a file whose iterations have different decompositions: raised {type(e).__name__}: {str(e)[:100]}')
                    continue
                vals = out.get('rho0', [])
                for i, it in enumerate(its):
                    got = np.asarray(vals[i]) if i < len(vals) else None
                    if got is None or got.shape != truth[it].shape or not np.array_equal(got, truth[it]):
                        bad.append(f'ghost width {g}, request it={its}: the entry for it={it} is not the stored interior data '
                                   f'(shape {None if got is None else got.shape} vs {truth[it].shape})')
                if [float(t_) for t_ in out.get('t', [])] != [times[it] for it in its]:
                    bad.append(f'ghost width {g}, request it={its}: times {list(out.get("t", []))}')
        finally:
            shutil.rmtree(d, ignore_errors=True)
    return bad, n


def regrid_obligation(R):
    t0 = time.time()
    bad, n = regrid_cases()
    R.bounded.append(dict(function='aurel.reading.read_ET_group_or_var (decomposition changing between iterations of one file)',
                          bound=f'{n} requests: 3 ghost widths x 5 iterations with different cuts / component numbering / piece counts x 9 request sets'))
    R.ob('reading.read_ET_group_or_var:every dataset is placed at its own origin -- a file whose iterations have different decompositions is read back exactly',
         'read_ET_group_or_var', 'refuted' if bad else ('bounded-ok' if n else 'undecided'), 'bounded-native', time.time() - t0, '; '.join(bad[:4]) or f'{n} requests', bad[:6] or None,
         bounded=f'{n} requests', replay=lambda o: (lambda b: (bool(b[0]), '; '.join(b[0][:4]) or 'every request exact'))(regrid_cases()))


def run(R):
    from engine.canary import run_canaries
    run_canaries(R, ('symx',))
    regrid_obligation(R)
    R.assume('A2', 'A4', 'A6')
    R.trust('h5py / os / glob as file-system contracts (A4); key and file-name parsing as decided in C18')
    fixij_obligations(R)
    ghost_trim_obligations(R)
    name_map_obligations(R)
    join_chunks_obligations(R, R.tier)
    restart_selection_obligations(R, R.tier)
    directory_obligations(R, R.tier)
    checkpoint_obligations(R)
    R.notes.append('an unsupported file name is ignored by parse_h5file/get_content (not raised); the property clause "an unsupported layout raises" is therefore only checked in the sense that no misplaced data is returned for the generated layouts')
    R.extra['explanation'] = ('fixij and ghost trimming proved for all sizes (z3); name maps exhaustive; restart selection on symbolic iteration values '
                              '(bounded counts); join_chunks and the I/O glue bounded on generated directories with injective cell encoding')
