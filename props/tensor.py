"""Shared driver for the tensor properties C04 C05 C06 C09 C10 C19 (and C01/C02/C08 reuse it)."""
from engine.e1run import Worlds, function_obligations
from engine.helpers import helper_obligations
from engine.chain import chain_obligations
from props import lemmas as LM

LEMMAS = {
    'C04': [(['onshell', 'onshell_vac'], [('3+1 form of g', LM.L_3p1), ('inverse', LM.L_inverse), ('determinants', LM.L_dets),
                           ('Riemann symmetries 4D', LM.L_riemann4), ('Riemann symmetries 3D', LM.L_riemann3),
                           ('constraints / Einstein equation', LM.L_constraints)], {})],
    'C05': [(['onshell'], [('covariant derivative', LM.L_covd), ('BSSNOK split', LM.L_bssn_split),
                           ('Riemann symmetries 3D', LM.L_riemann3), ('conformal', LM.L_conformal)], {})],
    'C06': [(['onshell', 'onshell_vac'], [('constraints / Einstein equation', LM.L_constraints)], {})],
    'C09': [(['fluid', 'fluid_rho0zero', 'fluid_atrest'], [('perfect fluid', LM.L_fluid)], {}),
            (['freeT'], [('projections of a supplied T', LM.L_Tproj)], {})],
    'C10': [(['onshell', 'onshell_vac'], [('Weyl tensor', LM.L_weyl), ('electric/magnetic parts', LM.L_EB)], {}),
            (['onshell'], [('quasi-Kinnersley triad', LM.L_tetrad_qk)], {}),
            (['onshell_fluidtetrad'], [('fluid tetrad', LM.L_tetrad_fluid)], {'numeric': True}),
            (['onshell', 'onshell_vac'], [('tetrad orientation', LM.L_tetrad_orientation)], {'numeric': True})],
    'C19': [(['onshell'], [('Eulerian kinematics', LM.L_kinematics)], {})],
}

FUNCS = {
    'C04': dict(
        funcs=['gtt', 'gtx', 'gty', 'gtz', 'gdown4', 'gup4', 'gdet', 'betadown3', 'betamag', 'nup4', 'ndown4',
               's_Gamma_udd3', 's_Riemann_uddd3', 's_Riemann_down3', 's_Ricci_down3', 's_RicciS', 'Ktrace',
               'st_Gamma_udd4', 'st_Riemann_down4', 'st_Riemann_uddd4', 'st_Riemann_uudd4', 'st_Ricci_down4',
               'st_Ricci_down3', 'st_RicciS', 'Einsteindown4', 'Kretschmann'],
        helpers=['s_covd', 's_to_st', 'trace3', 'trace4'],
        scens=['onshell', 'onshell_vac', 'onshell_comp'], thorough_scens=['onshell', 'onshell_vac', 'onshell_comp'],
        chain=['gdown4', 'gup4', 'gdet', 'st_Gamma_udd4', 'st_Riemann_down4', 'st_Riemann_uddd4',
               'st_Riemann_uudd4', 'st_Ricci_down4', 'st_RicciS', 'Einsteindown4', 'Kretschmann']),
    'C05': dict(
        funcs=['s_Gamma_udd3', 's_Riemann_uddd3', 's_Riemann_down3', 's_Ricci_down3', 's_RicciS',
               'gammaup3', 'gammadet', 'psi_bssnok', 'phi_bssnok', 'gammadown3_bssnok', 'gammaup3_bssnok',
               's_Gamma_udd3_bssnok', 's_Gamma_bssnok', 's_Ricci_down3_bssnok', 's_RicciS_bssnok',
               's_Ricci_down3_phi', 'DDalpha'],
        helpers=['s_covd', 'st_covd', 's_div', 's_curl', 'Lie_beta', 'levicivita_down3', 'levicivita_down4',
                 'levicivita_symbol_down3', 'levicivita_symbol_down4', 'kronecker_delta3', 'kronecker_delta4',
                 'trace3', 'tracefree3'],
        scens=['onshell', 'onshell_comp'], thorough_scens=['onshell', 'onshell_comp'],
        chain=['s_Gamma_udd3', 's_Riemann_uddd3', 's_Riemann_down3', 's_Ricci_down3', 's_RicciS',
               's_Gamma_udd3_bssnok', 's_Gamma_bssnok', 's_Ricci_down3_bssnok', 's_RicciS_bssnok',
               's_Ricci_down3_phi', 'DDalpha']),
    'C06': dict(
        funcs=['Hamiltonian', 'Momentumup3', 'Momentumdown3', 'Momentumx', 'Momentumy', 'Momentumz',
               'Momentumdownx', 'Momentumdowny', 'Momentumdownz', 'rho_n', 'fluxup3_n', 'fluxdown3_n',
               'Stressup3_n', 'Stressdown3_n', 'Stresstrace_n', 'Ktrace', 'Kup3', 'Adown3', 'Aup3',
               'Adown3_bssnok', 'Aup3_bssnok', 'A2_bssnok', 'DDalpha', 'dtKtrace', 'dtphi_bssnok', 'dtgammaup3',
               'dtgammadown3_bssnok', 'dtAdown3_bssnok', 'dts_Gamma_bssnok', 'rho_n_fromHam',
               'fluxup3_n_fromMom', 'Hamiltonian_Escale', 'Hamiltonian_norm', 'Momentum_Escale',
               'Momentumx_norm', 'Momentumy_norm', 'Momentumz_norm', 'Momentumdownx_norm', 'Momentumdowny_norm',
               'Momentumdownz_norm'],
        helpers=['Lie_beta', 's_covd', 'tracefree3', 'trace3'],
        # 'fluid': matter given as fluid variables (no Tdown4 input) -- off-shell, so no textbook time derivative, but every function
        # must still give the same value in every cache state of its guard keys
        scens=['onshell', 'onshell_vac', 'onshell_comp', 'fluid'], thorough_scens=['onshell', 'onshell_vac', 'onshell_comp', 'fluid', 'fluid_comp'],
        chain_scens=['onshell', 'onshell_vac', 'onshell_comp'],
        chain=['Hamiltonian', 'Momentumup3', 'Momentumdown3', 'dtKtrace', 'dtphi_bssnok', 'dtgammaup3',
               'dtgammadown3_bssnok', 'dtAdown3_bssnok', 'dts_Gamma_bssnok', 'rho_n_fromHam', 'fluxup3_n_fromMom']),
    'C09': dict(
        funcs=['rho0', 'eps', 'rho', 'enthalpy', 'press', 'w_lorentz', 'velx', 'vely', 'velz', 'velup3', 'velup4',
               'veldown3', 'veldown4', 'uup0', 'uup3', 'uup4', 'udown4', 'udown3', 'hdown4', 'hdet', 'hmixed4',
               'hup4', 'Tdown4', 'Tup4', 'Ttrace', 'rho_n', 'fluxup3_n', 'fluxdown3_n', 'Stressup3_n',
               'Stressdown3_n', 'Stresstrace_n', 'press_n', 'anisotropic_press_down3_n', 'angmomup3_n',
               'angmomdown3_n', 'conserved_D', 'conserved_E', 'conserved_Sdown4', 'conserved_Sdown3',
               'conserved_Sup4', 'conserved_Sup3', 'gammadown4', 'gammaup4', 'nup4', 'ndown4'],
        helpers=['trace4', 'trace3', 'levicivita_down3'],
        scens=['fluid', 'fluid_comp', 'fluid_rho0zero', 'fluid_atrest', 'freeT'],
        thorough_scens=['fluid', 'fluid_comp', 'fluid_rho0zero', 'fluid_atrest', 'fluid_dust', 'freeT', 'onshell'],
        chain=['uup4', 'udown4', 'Tdown4', 'Tup4', 'Ttrace', 'rho_n', 'fluxup3_n', 'fluxdown3_n', 'Stressdown3_n',
               'Stressup3_n', 'Stresstrace_n', 'press_n', 'anisotropic_press_down3_n', 'conserved_D',
               'conserved_E', 'conserved_Sdown4', 'conserved_Sup4', 'hdown4', 'hup4', 'hmixed4'],
        chain_scens=['fluid', 'fluid_rho0zero']),
    'C10': dict(
        funcs=['st_Weyl_down4', 'eweyl_n_down3', 'bweyl_n_down3', 'eweyl_u_down4', 'bweyl_u_down4',
               'Weyl_Psi', 'Weyl_invariants'],
        helpers=['levicivita_down3', 'levicivita_down4', 'levicivita_symbol_down3', 'levicivita_symbol_down4',
                 's_to_st', 's_covd', 'tracefree3', 'norm3', 'norm4', 'vector_inner_product3',
                 'vector_inner_product4', 'null_vector_base'],
        scens=['onshell', 'onshell_vac', 'onshell_fluidtetrad', 'onshell_comp'], thorough_scens=['onshell', 'onshell_vac', 'onshell_fluidtetrad', 'onshell_comp'],
        chain=['st_Weyl_down4', 'eweyl_n_down3', 'bweyl_n_down3', 'eweyl_u_down4', 'bweyl_u_down4'],
        chain_scens=['onshell', 'onshell_vac']),
    'C19': dict(
        funcs=['dtconserved', 'st_covd_udown4', 'accelerationdown4', 'accelerationup4', 's_covd_udown4',
               'thetadown4', 'theta', 'sheardown4', 'shear2', 'omegadown4', 'omega2', 'uup4', 'udown4',
               'hdown4', 'hup4', 'hmixed4', 'conserved_D', 'conserved_E', 'conserved_Sdown4', 'conserved_Sdown3',
               'conserved_Sup4', 'conserved_Sup3'],
        helpers=['st_covd'],
        # 'onshell_vac': the vacuum flag set (on Ricci-flat data with a generic, time-dependent lapse) -- every vacuum shortcut
        scens=['onshell', 'onshell_comp', 'onshell_vac'], thorough_scens=['onshell', 'onshell_comp', 'onshell_vac'],
        chain=['uup4', 'st_covd_udown4', 'accelerationdown4', 'theta', 'sheardown4', 'shear2', 'omegadown4',
               'omega2', 'thetadown4']),
}


def run_tensor(R, pid):
    cfg = FUNCS[pid]
    W = Worlds(R.seed)
    npts = 1 if R.tier == 'quick' else 3
    scens = cfg['scens'] if R.tier == 'quick' else cfg.get('thorough_scens', cfg['scens'])
    R.assume('A1', 'A2', 'A3', 'A5', 'A6', 'A7', 'A8')
    R.trust('C07 contract of the finite-difference layer: d3x/d3y/d3z = exact partial derivative up to O(h^p) (proved by the C07 check)')
    for f in cfg['funcs']:
        function_obligations(R, W, f, scens, npoints=npts)
    # what a single generic point cannot show: memory layout of the inputs, extent of the grid (real AurelCore, bounded)
    from props.regimes import regime_obligations
    regime_obligations(R, list(cfg['funcs']) + list(cfg.get('chain', [])))
    for s in scens[:1]:
        helper_obligations(R, W, s, only=set(cfg.get('helpers', [])), npoints=npts)
    # a helper method that tests the cache ('X' in self.data) has more than one path: every such helper is also run in the
    # regimes where those tests come out differently (no shift supplied, shift through a single component, shift absent but
    # its time derivative supplied), with the composite key absent and present
    import aurel.core as _C
    from engine.e1 import discover_guards as _dg
    guarded = set()
    for h in cfg.get('helpers', []):
        f_ = getattr(_C.AurelCore, h, None)
        try:
            if f_ is not None and _dg(f_)['keys']:
                guarded.add(h)
        except Exception:
            guarded.add(h)
    for h in sorted(guarded):
        for s in ('noshift', 'noshift_dtshift', 'shift_x', 'shift_z'):
            for present in ((), ('betaup3',)):
                helper_obligations(R, W, s, only={h}, npoints=1, present=present, tag='|cache:' + ('+'.join(present) or '-'))
    for s in cfg.get('chain_scens', scens):
        chain_obligations(R, W, s, cfg.get('chain', []), 'property', npoints=npts)
    for lscens, lems, relkw in LEMMAS.get(pid, []):
        if relkw.get('numeric'):
            LM.numeric_lemma_obligations(R, R.seed, lems, lscens)
        else:
            LM.lemma_obligations(R, W, lems, lscens, npoints=npts, relkw=relkw)
