"""Shared driver for the tensor properties C04 C05 C06 C09 C10 C19 (and C01/C02/C08 reuse it)."""
from engine.e1run import Worlds, function_obligations
from engine.helpers import helper_obligations
from engine.chain import chain_obligations

FUNCS = {
    'C04': dict(
        funcs=['gtt', 'gtx', 'gty', 'gtz', 'gdown4', 'gup4', 'gdet', 'betadown3', 'betamag', 'nup4', 'ndown4',
               's_Gamma_udd3', 's_Riemann_uddd3', 's_Riemann_down3', 's_Ricci_down3', 's_RicciS', 'Ktrace',
               'st_Gamma_udd4', 'st_Riemann_down4', 'st_Riemann_uddd4', 'st_Riemann_uudd4', 'st_Ricci_down4',
               'st_Ricci_down3', 'st_RicciS', 'Einsteindown4', 'Kretschmann'],
        helpers=['s_covd', 's_to_st', 'trace3', 'trace4'],
        scens=['onshell'], thorough_scens=['onshell', 'onshell_comp'],
        chain=['gdown4', 'gup4', 'gdet', 'st_Gamma_udd4', 'st_Riemann_down4', 'st_Riemann_uddd4',
               'st_Riemann_uudd4', 'st_Ricci_down4', 'st_RicciS', 'Einsteindown4', 'Kretschmann']),
}


def run_tensor(R, pid):
    cfg = FUNCS[pid]
    W = Worlds(R.seed)
    npts = 1 if R.tier == 'quick' else 3
    scens = cfg['scens'] if R.tier == 'quick' else cfg.get('thorough_scens', cfg['scens'])
    R.assume('A1', 'A2', 'A3', 'A5', 'A6', 'A7', 'A8')
    R.trust('C07 contract of the finite-difference layer: d3x/d3y/d3z = exact partial derivative up to O(h^p) (proved by the C07 check)')
    for f in cfg['funcs']:
        function_obligations(R, W, f, scens, npoints=npts)
    for s in scens[:1]:
        helper_obligations(R, W, s, only=set(cfg.get('helpers', [])), npoints=npts)
    for s in scens:
        chain_obligations(R, W, s, cfg.get('chain', []), 'property', npoints=npts)
