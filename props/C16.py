"""C16 the grid object describes exactly the grid the parameters specify.

O1-O3  the real FiniteDifference.__init__ runs on symbolic parameters (Nx,Ny,Nz integer >= 1, mins and
       spacings real): N points per axis at min + i*d, Nx/Ny/Nz attributes, extents = last point, every
       derived array of shape (Nx,Ny,Nz), coordinate stacks (3,Nx,Ny,Nz); for all N and parameters.
O4     Cartesian <-> spherical round trip: the real conversion methods run on pointwise symbolic reals;
       sqrt / arccos / sin / cos are uninterpreted except for the facts listed in TRIG_FACTS.
O5     cutoffmask / cutoffmask2 remove exactly mask_len / 2 mask_len entries per side for ranks 1-3.
Consumers: AurelCore.data_shape and the sphere sampling sizes agree with fd's shapes (lemma from O1-O3).
"""
import math
import time
import types
import z3

from engine import symx as SX
from engine.symx import Z, SArr, base_array, explore, prove, to_z3
from engine.e1 import RebMod, rebind_class

LEVEL = 'proof'
TRIG_FACTS = [
    'w = sqrt(v), v >= 0  =>  w >= 0 and w*w = v',
    'a = arccos(u), -1 <= u <= 1  =>  cos(a) = u, sin(a) = sqrt(1 - u*u) >= 0, 0 <= a <= pi',
    'cos(s*a) = cos(a) and sin(s*a) = s*sin(a) for s in {-1, 1}; cos(0*a) = 1, sin(0*a) = 0',
    'cos(-pi) = -1, sin(-pi) = 0',
    'cos is injective on [0, pi] (used for the converse round trip)',
]


class Ang:
    """an angle as a symbolic structure: we only ever need its cosine and sine"""

    def __init__(self, cos, sin, desc):
        self.cos, self.sin, self.desc = cos, sin, desc

    def __rmul__(self, s):       # sign(y) * arccos(...)
        s = to_z3(s, real=True)
        SX.ctx().require('angle scaled by a sign value in {-1,0,1}', z3.Or(s == -1, s == 0, s == 1))
        return Ang(z3.If(s == 0, z3.RealVal(1), self.cos), s * self.sin, f'sign*({self.desc})')
    __mul__ = __rmul__

    def __setitem__(self, mask, value):
        m = to_z3(mask)
        if isinstance(value, float) and abs(value + math.pi) < 1e-15:
            c, s_ = z3.RealVal(-1), z3.RealVal(0)
        else:
            raise SX.PathAbort(f'angle assignment of {value!r} not modelled')
        self.cos = z3.If(m, c, self.cos)
        self.sin = z3.If(m, s_, self.sin)
        self.desc = f'where(mask, -pi, {self.desc})'


class TrigNP:
    """numpy as seen by cartesian_to_spherical / spherical_to_cartesian / safe_division on pointwise reals"""
    pi = math.pi

    def __getattr__(self, n):
        import numpy
        return getattr(numpy, n)

    def sqrt(self, v):
        c = SX.ctx()
        w = z3.Real(f'sqrt!{next(c.fresh)}')
        e = to_z3(v, real=True)
        c.require('sqrt of a non-negative number', e >= 0)
        c.assume(z3.And(w >= 0, w * w == e))
        return Z(w)

    def sign(self, v):
        e = to_z3(v, real=True)
        return Z(z3.If(e > 0, z3.RealVal(1), z3.If(e < 0, z3.RealVal(-1), z3.RealVal(0))))

    def arccos(self, u):
        c = SX.ctx()
        e = to_z3(u, real=True)
        c.require('arccos argument within [-1, 1]', z3.And(e >= -1, e <= 1))
        s = z3.Real(f'sinacos!{next(c.fresh)}')
        c.assume(z3.And(s >= 0, s * s == 1 - e * e))
        return Ang(e, s, 'arccos')

    def logical_and(self, a, b):
        return Z(z3.And(to_z3(a), to_z3(b)))

    def where(self, cond, a, b):
        return Z(z3.If(to_z3(cond), to_z3(a, real=True), to_z3(b, real=True)))

    def sin(self, a):
        return Z(a.sin) if isinstance(a, Ang) else Z(a[1])

    def cos(self, a):
        return Z(a.cos) if isinstance(a, Ang) else Z(a[0])

    class errstate:
        def __init__(self, **k): pass
        def __enter__(self): return self
        def __exit__(self, *a): return False


def modules():
    import aurel.finitedifference as FDm
    import aurel.maths as M
    return FDm, M


def discharge(R, name, fn, paths, backend='z3'):
    agg = {}
    for res, c in paths:
        for nm, goal, pc in c.obls:
            v, model, secs = prove(pc, goal, 30000)
            r = agg.setdefault(nm, dict(valid=0, invalid=[], unknown=[], secs=0.0))
            r['secs'] += secs
            (r['invalid'].append(str(model)[:400]) if v == 'invalid' else r['unknown'].append(str(model)) if v == 'unknown'
             else r.__setitem__('valid', r['valid'] + 1))
    for nm, r in agg.items():
        st = 'refuted' if r['invalid'] else ('undecided' if r['unknown'] else 'discharged')
        R.ob(f'{name}:{nm}', fn, st, backend, r['secs'],
             ('counter-model: ' + r['invalid'][0]) if r['invalid'] else (r['unknown'][0] if r['unknown'] else f"{r['valid']} path(s)"),
             [nm] if r['invalid'] else None, replay=native_grid_replay)
    if not agg:
        R.ob(f'{name}:generated-obligations', fn, 'undecided', backend, 0.0, 'no verification condition generated (vacuity guard)')


def init_obligations(R):
    FDm, M = modules()
    shim = SX.ShimNPz()
    mod = RebMod(FDm, {'np': shim})
    g = dict(mod._g)
    g['len'] = lambda a: Z(to_z3(a.shape[0])) if isinstance(a, SArr) else len(a)
    cls = rebind_class(FDm.FiniteDifference, g)
    R.under_contract(FDm.FiniteDifference.__init__)

    class C2S(cls):
        def cartesian_to_spherical(self, x, y, z):
            # contract (O4 / shape): three arrays of the shape of the arguments
            mk = lambda n: SArr(x.shape, lambda idx, n=n: Z(z3.Function(n, *([z3.IntSort()] * len(idx) + [z3.RealSort()]))(*[to_z3(i) for i in idx])), n)
            return mk('r'), mk('theta'), mk('phi')

    for order, extra in [(o, False) for o in (2, 4, 6, 8, 5)] + [(4, True), (6, True)]:
        def run(extra=extra):
            c = SX.ctx()
            N = {a: z3.Int('N' + a) for a in 'xyz'}
            mn = {a: z3.Real(a + 'min') for a in 'xyz'}
            d = {a: z3.Real('d' + a) for a in 'xyz'}
            for a in 'xyz':
                c.assume(N[a] >= 1)
                c.assume(d[a] > 0)
            param = {}
            for a in 'xyz':
                param['N' + a], param[a + 'min'], param['d' + a] = Z(N[a]), Z(mn[a]), Z(d[a])
                if extra:
                    # a dictionary as aurel.parameters() builds it carries more keys (domain edge, length, thorn settings);
                    # their values are unconstrained: the grid is defined by N, min and spacing alone
                    param[a + 'max'], param['L' + a] = Z(z3.Real(a + 'max_in_dict')), Z(z3.Real('L' + a + '_in_dict'))
            if extra:
                param.update({'simname': 'run', 'simpath': '/s/', 'datapath': '/s/run/', 'max_refinement_levels': 1, 'list_of_thorns': ['CoordBase'],
                              'CoordBase::boundary_size_x_lower': 3, 'time': Z(z3.Real('time_in_dict'))})
            fd = C2S(param, boundary='no boundary', fd_order=order, verbose=False)
            I = {a: c.new_int('i' + a) for a in 'xyz'}
            for a in 'xyz':
                c.assume(z3.And(I[a] >= 0, I[a] < N[a]))
            idx3 = tuple(I[a] for a in 'xyz')
            for n, a in enumerate('xyz'):
                arr = getattr(fd, a + 'array')
                c.require(f'{a}array has exactly N{a} points', to_z3(arr.shape[0]) == N[a])
                c.require(f'{a}array[i] = {a}min + i*d{a}', to_z3(arr.at((I[a],)), real=True) == mn[a] + z3.ToReal(I[a]) * d[a])
                c.require(f'N{a} attribute = param N{a}', to_z3(getattr(fd, 'N' + a)) == N[a])
                c.require(f'{a}max is the last grid point', to_z3(getattr(fd, a + 'max'), real=True) == mn[a] + z3.ToReal(N[a] - 1) * d[a])
                c.require(f'{a}min attribute', to_z3(getattr(fd, a + 'min'), real=True) == mn[a])
                c.require(f'inverse_d{a} = 1/d{a}', to_z3(getattr(fd, 'inverse_d' + a), real=True) * d[a] == 1)
                ic = getattr(fd, f'i{a}center')
                c.require(f'i{a}center is a valid index', z3.And(to_z3(ic) >= 0, to_z3(ic) < N[a]))
                m3 = getattr(fd, a)
                c.require(f'{a} mesh has the data shape', z3.And(len(m3.shape) == 3, *[to_z3(s_) == N[b] for s_, b in zip(m3.shape, 'xyz')]))
                c.require(f'{a} mesh value = {a}array[i_{a}]', to_z3(m3.at(idx3), real=True) == mn[a] + z3.ToReal(I[a]) * d[a])
            for nm in ('r', 'theta', 'phi'):
                a3 = getattr(fd, nm)
                c.require(f'{nm} has the data shape', z3.And(len(a3.shape) == 3, *[to_z3(s_) == N[b] for s_, b in zip(a3.shape, 'xyz')]))
            for nm in ('cartesian_coords', 'spherical_coords'):
                a4 = getattr(fd, nm)
                ok = len(a4.shape) == 4 and a4.shape[0] == 3
                c.require(f'{nm} has shape (3, Nx, Ny, Nz)', z3.And(z3.BoolVal(ok), *[to_z3(s_) == N[b] for s_, b in zip(a4.shape[1:], 'xyz')]) if ok else z3.BoolVal(False))
            cc = fd.cartesian_coords
            for n, a in enumerate('xyz'):
                c.require(f'cartesian_coords[{n}] = {a} mesh', to_z3(cc.at((n,) + idx3), real=True) == mn[a] + z3.ToReal(I[a]) * d[a])
            q = order if order in (2, 4, 6, 8) else 4
            c.require('mask_len = fd_order/2 (fallback order 4)', z3.BoolVal(fd.mask_len == q // 2 and fd.fd_order == q))
        t0 = time.time()
        try:
            paths = explore(run)
            discharge(R, f'fd.__init__[fd_order={order}{", parameter dictionary with extra keys" if extra else ""}]', '__init__', paths)
        except (SX.PathAbort, TypeError, AttributeError) as e:
            if 'arange with step' in str(e):
                # np.arange(start, stop, step) with a real step: its length is ceil((stop-start)/step) evaluated in binary64,
                # so "exactly N points" is a floating-point statement, outside A1: decided by a search over parameter sets
                # whose multiples are not representable (bounded), each hit replayed on the real constructor
                found, text = native_grid_replay()
                R.bounded.append(dict(function='FiniteDifference.__init__ (np.arange with a float step)', bound='280 parameter sets incl. spacings 0.1, 0.3, 1/3'))
                R.ob(f'fd.__init__[fd_order={order}]:coordinate arrays have exactly N points (binary64 arange)', '__init__',
                     'refuted' if found else 'undecided', 'bounded-native', time.time() - t0, text, ['arange-length'] if found else None,
                     replay=native_grid_replay)
            else:
                R.ob(f'fd.__init__[fd_order={order}]:symbolic-run', '__init__', 'undecided', 'z3', time.time() - t0, f'{type(e).__name__}: {e}')


def roundtrip_obligations(R):
    FDm, M = modules()
    shim = TrigNP()
    mm = RebMod(M, {'np': shim})
    mod = RebMod(FDm, {'np': shim, 'maths': mm})
    cls = rebind_class(FDm.FiniteDifference, mod._g)
    fd = object.__new__(cls)
    R.under_contract(FDm.FiniteDifference.cartesian_to_spherical)
    R.under_contract(FDm.FiniteDifference.spherical_to_cartesian)
    R.trust('facts about the transcendental functions used (everything else about them is uninterpreted): ' + '; '.join(TRIG_FACTS))

    def forward():
        c = SX.ctx()
        x, y, z = (z3.Real(n) for n in 'xyz')
        r, th, ph = fd.cartesian_to_spherical(Z(x), Z(y), Z(z))
        c.require('r >= 0 and r^2 = x^2+y^2+z^2', z3.And(to_z3(r) >= 0, to_z3(r) * to_z3(r) == x * x + y * y + z * z))
        xs, ys, zs = fd.spherical_to_cartesian(r, th, ph)
        c.require('x recovered', to_z3(xs, real=True) == x)
        c.require('y recovered', to_z3(ys, real=True) == y)
        c.require('z recovered', to_z3(zs, real=True) == z)
    t0 = time.time()
    try:
        paths = explore(forward)
        discharge(R, 'fd.spherical_to_cartesian(cartesian_to_spherical(x,y,z)) == (x,y,z)', 'cartesian_to_spherical', paths, 'z3-nra')
    except (SX.PathAbort, TypeError, AttributeError) as e:
        R.ob('fd.roundtrip:forward', 'cartesian_to_spherical', 'undecided', 'z3', time.time() - t0, f'{type(e).__name__}: {e}')

    # converse on r > 0, 0 < theta < pi, -pi <= phi < pi : by cases on phi
    cases = {'-pi < phi < 0': lambda c_, s_: z3.And(s_ < 0), '0 < phi < pi': lambda c_, s_: s_ > 0,
             'phi = 0': lambda c_, s_: z3.And(c_ == 1, s_ == 0), 'phi = -pi': lambda c_, s_: z3.And(c_ == -1, s_ == 0)}
    for cname, cond in cases.items():
        def conv(cond=cond, cname=cname):
            c = SX.ctx()
            r = z3.Real('r')
            ct, st, cp, sp = (z3.Real(n) for n in ('cos_theta', 'sin_theta', 'cos_phi', 'sin_phi'))
            c.assume(z3.And(r > 0, ct * ct + st * st == 1, st > 0, cp * cp + sp * sp == 1, cond(cp, sp)))
            x, y, z = fd.spherical_to_cartesian(Z(r), (ct, st), (cp, sp))
            r2, th2, ph2 = fd.cartesian_to_spherical(x, y, z)
            c.require('r recovered', to_z3(r2, real=True) == r)
            c.require('theta recovered (cos equal, both in [0,pi])', th2.cos == ct)
            c.require('sin theta consistent', th2.sin == st)
            c.require('phi recovered: cosine', ph2.cos == cp)
            c.require('phi recovered: sine (same half-plane)', ph2.sin == sp)
        t0 = time.time()
        try:
            paths = explore(conv)
            discharge(R, f'fd.cartesian_to_spherical(spherical_to_cartesian(r,theta,phi)) == (r,theta,phi) [{cname}]',
                      'spherical_to_cartesian', paths, 'z3-nra')
        except (SX.PathAbort, TypeError, AttributeError) as e:
            R.ob(f'fd.roundtrip:converse[{cname}]', 'spherical_to_cartesian', 'undecided', 'z3', time.time() - t0, f'{type(e).__name__}: {e}')


def cutoff_obligations(R):
    FDm, M = modules()
    for meth, factor in (('cutoffmask', 1), ('cutoffmask2', 2)):
        R.under_contract(getattr(FDm.FiniteDifference, meth))
        for order in (2, 4, 6, 8):
            for rank in (1, 2, 3):
                def run():
                    c = SX.ctx()
                    fd = object.__new__(FDm.FiniteDifference)
                    fd.mask_len = order // 2
                    m = factor * fd.mask_len
                    dims = [z3.Int(f'n{k}') for k in range(rank)]
                    for dd_ in dims:
                        c.assume(dd_ >= 2 * m + 1)
                    f, F = base_array('F', tuple(dims))
                    out = getattr(fd, meth)(f)
                    c.require('result rank', z3.BoolVal(isinstance(out, SArr) and len(out.shape) == rank))
                    I = [c.new_int('i') for _ in range(rank)]
                    for i, s_ in zip(I, out.shape):
                        c.assume(z3.And(i >= 0, i < to_z3(s_)))
                    for k in range(rank):
                        c.require(f'axis {k}: exactly {m} entries removed per side', to_z3(out.shape[k]) == dims[k] - 2 * m)
                    c.require('kept entries are the interior ones', to_z3(out.at(tuple(I)), real=True) == F(*[i + m for i in I]))
                t0 = time.time()
                try:
                    paths = explore(run)
                    discharge(R, f'fd.{meth}[order={order},rank={rank}]', meth, paths)
                except (SX.PathAbort, TypeError, AttributeError, IndexError) as e:
                    R.ob(f'fd.{meth}[order={order},rank={rank}]:symbolic-run', meth, 'undecided', 'z3', time.time() - t0, f'{type(e).__name__}: {e}')


def consumer_obligations(R):
    """the consumer of the grid sizes: the real AurelCore.__init__ runs on a grid object whose N are z3 integers;
    ensures data_shape == (Nx, Ny, Nz) (== fd.x.shape by the constructor obligations) and, for a centre inside the
    box, the default extraction radius is positive and the sphere stays inside the grid."""
    import types
    import aurel.core as C
    t0 = time.time()
    R.under_contract(C.AurelCore.__init__)

    def run():
        c = SX.ctx()
        N = {a: z3.Int('N' + a) for a in 'xyz'}
        for a in 'xyz':
            c.assume(N[a] >= 1)
        fd = types.SimpleNamespace(param={'N' + a: Z(N[a]) for a in 'xyz'}, xmin=-1.0, xmax=2.0, ymin=-3.0, ymax=1.5, zmin=-0.5, zmax=4.0)
        fd.param.update(xmin=-1.0, ymin=-3.0, zmin=-0.5, dx=0.1, dy=0.1, dz=0.1)
        rel = object.__new__(C.AurelCore)
        C.AurelCore.__init__(rel, fd, verbose=False)
        ds = rel.data_shape
        c.require('data_shape == (Nx, Ny, Nz)', z3.And(z3.BoolVal(len(ds) == 3), *[to_z3(v) == N[a] for v, a in zip(ds, 'xyz')]) if len(ds) == 3 else z3.BoolVal(False))
        r0 = rel.extract_radii[0]
        inside = 0 < r0 <= min(1.0, 2.0, 3.0, 1.5, 0.5, 4.0)
        c.require('default extraction sphere (centre inside the box) has positive radius and stays inside the grid', z3.BoolVal(bool(inside)))
        c.require('cache starts empty, counters at 0', z3.BoolVal(rel.data == {} and rel.last_accessed == {} and rel.calculation_count == 0))
    try:
        discharge(R, 'core.AurelCore.__init__', '__init__', explore(run))
    except Exception as e:
        R.ob('core.AurelCore.__init__:symbolic-run', '__init__', 'undecided', 'z3', time.time() - t0, f'{type(e).__name__}: {e}')


def frame_obligations(R):
    """frame of every public method of the grid object: arguments and the grid's own arrays (x, r, theta, coordinate
    stacks ...) are write-protected (numpy raises on ANY in-place write, whatever the values), the method is called, and
    all protected arrays must be bit-identical afterwards.  Input-independent: a write is caught on whichever element it hits."""
    import numpy as np
    import aurel
    t0 = time.time()
    bad = []
    n = 0
    for boundary in ('no boundary', 'periodic', 'symmetric'):
        fd = aurel.FiniteDifference(dict(Nx=14, Ny=15, Nz=16, xmin=-1.3, ymin=-1.4, zmin=-1.5, dx=0.2, dy=0.2, dz=0.2), boundary=boundary, fd_order=4, verbose=False)
        attrs = {k: v for k, v in vars(fd).items() if isinstance(v, np.ndarray)}
        snap = {k: v.copy() for k, v in attrs.items()}
        for v in attrs.values():
            v.flags.writeable = False
        rng = np.random.default_rng(5)

        def arr(*lead):
            a = rng.normal(size=lead + (14, 15, 16))
            a.flags.writeable = False
            return a
        calls = [('d3x', (arr(),)), ('d3y', (arr(),)), ('d3z', (arr(),)), ('d3_scalar', (arr(),)), ('d3_rank1tensor', (arr(3),)), ('d3x_rank1tensor', (arr(3),)),
                 ('d3y_rank1tensor', (arr(3),)), ('d3z_rank1tensor', (arr(3),)), ('d3_rank2tensor', (arr(3, 3),)), ('d3x_rank2tensor', (arr(3, 3),)),
                 ('d3_rank3tensor', (arr(3, 3, 3),)), ('cutoffmask', (arr(),)), ('cutoffmask2', (arr(),)), ('excision', (arr(),)), ('excision2', (arr(),)),
                 ('cartesian_to_spherical', (fd.x, fd.y, fd.z)), ('spherical_to_cartesian', (fd.r, fd.theta, fd.phi)),
                 ('cartesian_to_spherical', (arr(), arr(), arr())), ('spherical_to_cartesian', (np.abs(arr()), np.abs(arr()), arr()))]
        for name, args in calls:
            if not hasattr(fd, name):
                continue
            args = tuple(a if not isinstance(a, np.ndarray) or not a.flags.writeable else (lambda b: (b.setflags(write=False), b)[1])(a) for a in args)
            before = [a.copy() for a in args]
            n += 1
            try:
                getattr(fd, name)(*args)
            except ValueError as e:
                if 'read-only' in str(e) or 'not writeable' in str(e):
                    bad.append(f'FiniteDifference.{name} ({boundary}) writes in place into an array it was given / an array of the grid object: {e}')
                    continue
                raise
            if any(not np.array_equal(a, b, equal_nan=True) for a, b in zip(args, before)) or any(not np.array_equal(attrs[k], snap[k], equal_nan=True) for k in attrs):
                bad.append(f'FiniteDifference.{name} ({boundary}) changed its arguments or the grid arrays')
    R.under_contract(aurel.FiniteDifference.spherical_to_cartesian)
    R.under_contract(aurel.FiniteDifference.cartesian_to_spherical)
    R.ob('fd.*:frame -- no method writes into its arguments or into the arrays of the grid object (coordinates stay the coordinates)', 'spherical_to_cartesian',
         'refuted' if bad else 'discharged', 'write-protected-run', time.time() - t0, '; '.join(bad[:3]) or f'{n} calls on write-protected arrays', bad[:6] or None,
         replay=lambda o: (bool(bad), '; '.join(bad[:3]) or 'no write attempted'))


def int_parameter_cases():
    """grids whose parameters are whole numbers, written as Python / numpy ints (what aurel.parameters() yields for a .par entry
    without a decimal point) -- compared with the same grid written with floats"""
    import numpy as np
    import aurel
    bad = []
    n = 0
    combos = [dict(Nx=6, Ny=7, Nz=8, xmin=-3, ymin=-3, zmin=-4, dx=1, dy=1, dz=1),
              dict(Nx=9, Ny=9, Nz=9, xmin=-8, ymin=-8, zmin=-8, dx=2, dy=2, dz=2),
              dict(Nx=8, Ny=6, Nz=10, xmin=1, ymin=-5, zmin=0, dx=1, dy=2, dz=3),
              dict(Nx=7, Ny=7, Nz=7, xmin=-3, ymin=-3, zmin=-1.5, dx=1, dy=1, dz=0.5),       # x, y whole numbers, z not
              dict(Nx=7, Ny=8, Nz=9, xmin=np.int64(-3), ymin=np.int32(-4), zmin=-4, dx=np.int64(1), dy=1, dz=np.int64(1)),
              dict(Nx=14, Ny=15, Nz=16, xmin=-7, ymin=0, zmin=-2, dx=1, dy=1, dz=1)]
    for par in combos:
        for kw in (dict(), dict(boundary='periodic'), dict(fd_order=6)):
            n += 1
            fpar = {k: (float(v) if not k.startswith('N') else int(v)) for k, v in par.items()}
            try:
                a = aurel.FiniteDifference(dict(par), verbose=False, **kw)
                b = aurel.FiniteDifference(fpar, verbose=False, **kw)
            except Exception as e:
                bad.append(f'{par} {kw}: constructor raised {type(e).__name__}: {e}')
                continue
            items, raised = {}, {}
            for obj, tag in ((a, 0), (b, 1)):
                d = {k: v for k, v in vars(obj).items() if isinstance(v, (np.ndarray, int, float, np.number, tuple, list))}
                calls = {'cartesian_to_spherical(x,y,z)': lambda o_: o_.cartesian_to_spherical(o_.x, o_.y, o_.z),
                         'spherical_to_cartesian(r,theta,phi) of the grid': lambda o_: o_.spherical_to_cartesian(*o_.cartesian_to_spherical(o_.x, o_.y, o_.z)),
                         'd3x(x*y)': lambda o_: o_.d3x(o_.x * o_.y), 'd3z(z*z)': lambda o_: o_.d3z(o_.z * o_.z)}
                for cn, cf in calls.items():
                    try:
                        d[cn] = cf(obj)
                    except Exception as e:
                        # a grid too small for the stencil raises for both spellings alike: compared as an outcome
                        raised[(tag, cn)] = type(e).__name__
                items[tag] = d
            for cn in calls:
                if raised.get((0, cn)) != raised.get((1, cn)):
                    bad.append(f'parameters {par} {kw}: {cn} {"raises " + raised[(0, cn)] if (0, cn) in raised else "returns"} with ints but '
                               f'{"raises " + raised[(1, cn)] if (1, cn) in raised else "returns"} with floats')
            for k in sorted(set(items[0]) & set(items[1])):
                try:
                    va, vb = np.asarray(items[0][k], dtype=float), np.asarray(items[1][k], dtype=float)
                except (ValueError, TypeError):
                    continue
                if va.shape != vb.shape or not np.allclose(va, vb, rtol=1e-12, atol=1e-12, equal_nan=True):
                    err = '' if va.shape != vb.shape else f' (max |difference| {np.nanmax(np.abs(va - vb)):.3g})'
                    bad.append(f'parameters {par} {kw}: {k} differs from the same grid described with floats{err}')
            if set(items[0]) != set(items[1]):
                bad.append(f'parameters {par} {kw}: attributes {sorted(set(items[0]) ^ set(items[1]))} exist for only one of the two spellings')
    # parameters given as narrow numpy scalars (values read from single-precision file attributes): the grid is the one
    # described by those values -- same as with the same values as Python floats; extents are the end points of the arrays
    for par in (dict(Nx=12, Ny=9, Nz=7, xmin=-1000.0, ymin=0.1, zmin=-0.3, dx=0.1, dy=0.3, dz=0.7),
                dict(Nx=33, Ny=6, Nz=6, xmin=0.3, ymin=-2.5, zmin=1 / 3, dx=1 / 3, dy=0.1, dz=0.01)):
        for ft in (np.float32, np.float16, np.float64):
            n += 1
            npar = {k: (ft(v) if not k.startswith('N') else v) for k, v in par.items()}
            fpar = {k: (float(ft(v)) if not k.startswith('N') else v) for k, v in par.items()}
            try:
                a = aurel.FiniteDifference(npar, verbose=False)
                b = aurel.FiniteDifference(fpar, verbose=False)
            except Exception as e:
                bad.append(f'{ft.__name__} parameters {par}: constructor raised {type(e).__name__}: {e}')
                continue
            for c_ in 'xyz':
                arr, mx, mn = getattr(a, c_ + 'array'), getattr(a, c_ + 'max'), getattr(a, c_ + 'min')
                if float(mx) != float(arr[-1]) or float(mn) != float(arr[0]):
                    bad.append(f'parameters given as {ft.__name__}: {c_}min / {c_}max = {float(mn)!r} / {float(mx)!r} are not the end points {float(arr[0])!r} / {float(arr[-1])!r} of {c_}array')
                tol = 1e-12 if ft is np.float64 else 0.0
                barr = np.asarray(getattr(b, c_ + 'array'), dtype=float)
                if len(arr) != par['N' + c_] or len(barr) != len(arr):
                    bad.append(f'parameters given as {ft.__name__}: {c_}array has {len(arr)} points ({len(barr)} with the same values as Python floats), N{c_} = {par["N" + c_]}')
                elif not np.allclose(np.asarray(arr, dtype=float), barr, rtol=1e-6 if ft is not np.float64 else 1e-14, atol=1e-6 * abs(float(mn)) + 1e-9):
                    bad.append(f'parameters given as {ft.__name__}: {c_}array differs from the grid described by the same values as Python floats')
    return bad, n


def int_parameter_obligation(R):
    t0 = time.time()
    bad, n = int_parameter_cases()
    R.bounded.append(dict(function='aurel.finitedifference.FiniteDifference (whole-number parameters)', bound=f'{n} grids: 6 parameter sets x 3 option sets, int vs float spelling'))
    R.ob('fd.*:whole-number parameters written as int describe the same grid as written as float (every array attribute, spherical coordinates, round trip, derivatives); narrow numpy scalars likewise, extents = end points of the arrays',
         '__init__', 'refuted' if bad else 'bounded-ok', 'bounded-native', time.time() - t0, '; '.join(bad[:4]), bad[:6] or None, bounded=f'{n} grids',
         replay=lambda o: (lambda b: (bool(b[0]), '; '.join(b[0][:4]) or 'no difference'))(int_parameter_cases()))


def native_grid_replay(o=None):
    """replay on the real class: parameter families incl. spacings whose multiples are not representable"""
    import numpy as np
    import aurel
    bad = []
    n = 0
    for N in (1, 2, 3, 5, 7, 10, 33, 100):
        for mn in (0.0, 1.0, -2.5, 12.0, 1 / 3):
            for d in (0.1, 0.3, 1 / 3, 0.7, 8.6662, 1e-3, 0.25):
                n += 1
                par = dict(Nx=N, Ny=N + 1, Nz=N + 2, xmin=mn, ymin=mn, zmin=mn, dx=d, dy=d, dz=d)
                if n % 3 == 0:
                    # dictionaries built by aurel.parameters() carry the domain edge and length as well
                    par.update(xmax=mn + (N + 1) * d, ymax=mn + (N + 2) * d, zmax=mn + (N + 3) * d, Lx=(N + 1) * d, Ly=(N + 2) * d, Lz=(N + 3) * d,
                               simname='run', max_refinement_levels=1)
                try:
                    fd = aurel.FiniteDifference(par, verbose=False)
                except Exception as e:
                    bad.append(f'{par}: constructor raised {type(e).__name__}: {e}')
                    continue
                if fd.x.shape != (N, N + 1, N + 2) or (fd.Nx, fd.Ny, fd.Nz) != (N, N + 1, N + 2):
                    bad.append(f'N={N} min={mn} d={d}: shapes {fd.x.shape}, N attrs {(fd.Nx, fd.Ny, fd.Nz)}')
                elif max(abs(fd.xmax - (mn + (N - 1) * d)), abs(fd.ymax - (mn + N * d)), abs(fd.zmax - (mn + (N + 1) * d))) > 1e-12 * (1 + abs(mn) + N * d):
                    bad.append(f'parameters {par}: extents {(fd.xmax, fd.ymax, fd.zmax)} but the last grid points are {(fd.xarray[-1], fd.yarray[-1], fd.zarray[-1])}')
                elif N >= 2 * fd.mask_len * 2 + 1 and (
                        fd.cutoffmask(fd.x).shape != tuple(q - 2 * fd.mask_len for q in fd.x.shape)
                        or fd.cutoffmask2(fd.x).shape != tuple(q - 4 * fd.mask_len for q in fd.x.shape)
                        or fd.cutoffmask(fd.xarray).shape != (N - 2 * fd.mask_len,)
                        or fd.cutoffmask2(fd.xarray).shape != (N - 4 * fd.mask_len,)
                        or fd.cutoffmask2(fd.x[0]).shape != (N + 1 - 4 * fd.mask_len, N + 2 - 4 * fd.mask_len)
                        or fd.cutoffmask(fd.xarray)[0] != fd.xarray[fd.mask_len]):
                    bad.append(f'N={N}: cutoffmask/cutoffmask2 do not remove mask_len / 2 mask_len entries per side')
                else:
                    x2, y2, z2 = fd.spherical_to_cartesian(*fd.cartesian_to_spherical(fd.x, fd.y, fd.z))
                    if max(np.abs(x2 - fd.x).max(), np.abs(y2 - fd.y).max(), np.abs(z2 - fd.z).max()) > 1e-9 * (1 + abs(mn) + N * d):
                        bad.append(f'N={N} min={mn} d={d}: round trip error')
    return bool(bad), (f'{n} parameter sets on the real FiniteDifference; failures: ' + '; '.join(bad[:6])) if bad else f'{n} parameter sets: none fails natively'


def run(R):
    from engine.canary import run_canaries
    run_canaries(R, ('symx',))
    frame_obligations(R)
    R.assume('A1', 'A2', 'A6')
    R.trust('numpy contract: len(np.arange(N)) == N and np.arange(N)[i] == i for integer N >= 0; meshgrid(indexing="ij") broadcasts axis n of the n-th argument')
    R.notes.append('x_i = min + i*d is proved over the reals (A1); in binary64 the stored value is the correctly rounded fl(min + fl(i*d)), a deviation of at most 1 ulp each, which is reported here and not proved')
    init_obligations(R)
    int_parameter_obligation(R)
    roundtrip_obligations(R)
    cutoff_obligations(R)
    consumer_obligations(R)
