"""C15 symbolic core gives the textbook tensors for any metric, flag and request order.

Per-function obligations (E1 on the sympy class): each real method of AurelCoreSymbolic runs on a
contract stub whose `self[k]` answers with the Taylor polynomial (exact rationals, 64-bit random
coefficients) of Spec_k for a generic smooth NON-DIAGONAL metric in n = 2, 3, 4 dimensions; the result
is evaluated at the expansion point and compared exactly with the textbook value computed by the jet
engine over Q (engine/jets.py, engine/universe.py: christoffel / riemann_uddd).  Callees are answered by
contract, both values of the simplify flag and both cache states of every `'X' in self.data` guard are
enumerated.  Chain obligations: the real class, holding only the metric, is driven through its real
__getitem__ in several request orders.
Decision procedure: polynomial identity testing over Q with 64-bit random integer coefficients
(Schwartz-Zippel, error < 2^-50 per obligation), exact rational arithmetic.
"""
import itertools
import random
import time
from fractions import Fraction
import numpy as np
import sympy as sp

from engine.jets import Field, J, ZERO_MI, NV, INF, multi_indices
from engine.universe import arr, ozeros, gauss_inverse, leibniz_det, christoffel, riemann_uddd, dd
from engine.e1 import discover_guards

LEVEL = 'proof'
KEYS = ['gdown', 'gup', 'gdet', 'Gamma_udd', 'Gamma_down', 'Riemann_uddd', 'Riemann_down', 'Ricci_down', 'RicciS',
        'Einstein_down']


class World:
    """generic metric jet of order 3 in n variables over Q and every textbook tensor derived from it"""

    def __init__(self, n, seed, explicit=False, zero=()):
        # zero: index pairs (i, k), i <= k, whose metric component is *structurally* zero (sympy 0) -- the regime of
        # sparse metrics: a vanishing covariant component does not make the contravariant one vanish
        self.n = n
        zero = {tuple(sorted(z)) for z in zero}
        rng = random.Random(f'C15/{n}/{seed}/{sorted(zero)}' if zero else f'C15/{n}/{seed}')
        F = self.F = Field('q')
        self.coords = sp.symbols('x0:%d' % n)
        if explicit:
            # a human-readable non-diagonal polynomial metric (used by the chain runs: the real class
            # must invert and differentiate it symbolically, so it has to stay small)
            xs = [self.coords[i] + sp.Rational(rng.randrange(1, 9), 7) for i in range(n)]
            gm = sp.zeros(n, n)
            for i in range(n):
                gm[i, i] = (i + 1) + xs[i] ** 2 + xs[(i + 1) % n] ** 2
                for k in range(i + 1, n):
                    gm[i, k] = gm[k, i] = xs[i] * xs[k] + xs[i]
            if n == 4:
                gm[3, 3] = -gm[3, 3]
            for (i, k) in zero:
                gm[i, k] = gm[k, i] = 0
            self.explicit_metric = gm.applyfunc(sp.expand)

        def rj():
            c = {}
            for m in multi_indices(3):
                if any(m[i] for i in range(n, NV)):
                    continue
                c[m] = Fraction(rng.randrange(1, 2 ** 62) * rng.choice([-1, 1]), 2 ** 40)
            return J(F, 3, c)
        if explicit:
            def jet_of(e):
                pz = sp.Poly(e, *self.coords)
                c = {}
                for mon, co in pz.terms():
                    m = tuple(mon) + (0,) * (NV - n)
                    if sum(m) <= 3:
                        c[m] = Fraction(int(sp.numer(co)), int(sp.denom(co)))
                return J(F, 3, c)
            g = arr([[jet_of(self.explicit_metric[i, k]) for k in range(n)] for i in range(n)])
        else:
            L = [[rj() if (min(i, k), max(i, k)) not in zero else J(F, 3, {}) for k in range(n)] for i in range(n)]
            g = arr([[L[min(i, j)][max(i, j)] for j in range(n)] for i in range(n)])
        S = self.S = {}
        S['gdown'] = g
        S['gup'] = gauss_inverse(g)
        S['gdet'] = leibniz_det(g)
        Dg = arr([dd(g, k) for k in range(n)])
        Gam = S['Gamma_udd'] = christoffel(g, S['gup'], Dg)
        S['Gamma_down'] = np.einsum('im,mjk->ijk', g, Gam)
        DG = arr([dd(Gam, k) for k in range(n)])
        Rm = S['Riemann_uddd'] = riemann_uddd(Gam, DG)
        S['Riemann_down'] = np.einsum('hm,mijk->hijk', g, Rm)
        Ric = S['Ricci_down'] = np.einsum('kikj->ij', Rm)
        S['RicciS'] = np.einsum('ij,ij->', S['gup'], Ric)
        S['Einstein_down'] = Ric - g * S['RicciS'] * Fraction(1, 2)

    def poly(self, j):
        """Taylor polynomial (about the origin) of a jet as a sympy expression"""
        if not isinstance(j, J):
            return sp.Rational(j)
        e = sp.Integer(0)
        o = j.o if j.o != INF else 0
        for m, c in j.c.items():
            if c and sum(m) <= o:
                t = sp.Rational(c.numerator, c.denominator)
                for i in range(self.n):
                    t = t * self.coords[i] ** m[i]
                e += t
        return e

    def served(self, key):
        v = self.S[key]
        a = np.asarray(v, dtype=object)
        if a.ndim == 0:
            return self.poly(a[()])
        if key in ('gdown', 'gup'):
            return sp.Matrix(a.shape[0], a.shape[1], lambda i, k: self.poly(a[i, k]))
        out = sp.MutableDenseNDimArray([0] * a.size, a.shape)
        for idx in np.ndindex(*a.shape):
            out[idx] = self.poly(a[idx])
        return out

    def at0(self, expr):
        v = sp.sympify(expr).subs({c: 0 for c in self.coords})
        if v.is_Rational:
            return Fraction(int(sp.numer(v)), int(sp.denom(v)))
        return float(v)        # the code introduced binary floats (0.5 literals): compare to 1e-9

    def value(self, j):
        return j.value() if isinstance(j, J) else Fraction(j)


class Data:
    def __init__(self, present):
        self.present = set(present)

    def __contains__(self, k):
        return k in self.present

    def keys(self):
        return self.present


class Stub:
    def __init__(self, W, simplify, present):
        self.W, self.simplify, self.verbose = W, simplify, False
        self.dim, self.coords = W.n, list(W.coords)
        self.data = Data(present)
        self.reads = []

    def __getitem__(self, k):
        self.reads.append(k)
        return self.W.served(k)


def _eq(a, b):
    if isinstance(a, float) or isinstance(b, float):
        return abs(float(a) - float(b)) <= 1e-9 * (1 + abs(float(b)))
    return a == b


def compare(W, res, spec):
    s = np.asarray(spec, dtype=object)
    bad = []
    if s.ndim == 0:
        return [] if _eq(W.at0(res), W.value(s[()])) else ['[]']
    shape = tuple(res.shape)
    if shape != s.shape:
        return [f'shape {shape} != {s.shape}']
    for idx in np.ndindex(*s.shape):
        if not _eq(W.at0(res[idx]), W.value(s[idx])):
            bad.append(str(list(idx)))
    return bad


_WORLDS = {}
SPARSE = {3: (((0, 1),), ((0, 0),), ((0, 1), (0, 2))), 4: (((0, 3),),)}


def _fo_task(args):
    """one (method, dimension, simplify, cache state) obligation; -> (status, detail, bad, secs)"""
    name, n, simplify, present, seed, cap, zero = args
    import signal
    import aurel.coresymbolic as CS
    cls = CS.AurelCoreSymbolic

    def _alarm(sig, frm):
        raise TimeoutError()
    old = signal.signal(signal.SIGALRM, _alarm)
    t0 = time.time()
    try:
        signal.alarm(cap)
        W = _WORLDS.get((n, seed, zero)) or _WORLDS.setdefault((n, seed, zero), World(n, seed, zero=zero))
        res = getattr(cls, name)(Stub(W, simplify, set(present)))
        bad = compare(W, res, W.S[name])
        signal.alarm(0)
        return ('refuted' if bad else 'discharged', f'code != textbook {name} for a generic non-diagonal metric' + (f' with structurally zero components {list(zero)}' if zero else '') if bad else '', bad or None, time.time() - t0)
    except TimeoutError:
        return ('skipped', f'sympy did not finish within {cap} s', None, time.time() - t0)
    except Exception as e:
        signal.alarm(0)
        return ('refuted', f'raised {type(e).__name__}: {e}', ['raised'], time.time() - t0)
    finally:
        signal.alarm(0)
        signal.signal(signal.SIGALRM, old)


def function_obligations(R, dims, seed):
    import multiprocessing as mp
    import aurel.coresymbolic as CS
    cls = CS.AurelCoreSymbolic
    tasks = []
    for name in KEYS[1:]:
        R.under_contract(getattr(cls, name), f'aurel.coresymbolic.AurelCoreSymbolic.{name}')
        g = discover_guards(getattr(cls, name))
        gkeys = sorted(g['keys'])
        for n in dims:
            for simplify in (False, True):
                for bits in itertools.product([False, True], repeat=len(gkeys)):
                    present = {'gdown'} | {k for k, b in zip(gkeys, bits) if b}
                    lab = '+'.join(k for k, b in zip(gkeys, bits) if b) or '-'
                    # dimension 4: sympy's symbolic inverse / simplification of 4x4 polynomial matrices takes minutes; capped
                    tasks.append((name, n, simplify, sorted(present), seed, 600 if n < 4 else 300, lab, ()))
                    # sparse metrics: a zero off-diagonal component whose inverse component does not vanish (indices coupled
                    # through a third one), a zero diagonal component (null coordinate), a block-diagonal metric
                    for zero in SPARSE.get(n, ()):
                        tasks.append((name, n, simplify, sorted(present), seed, 600 if n < 4 else 300, lab, zero))
    tasks.sort(key=lambda t: -t[1])
    with mp.Pool(14) as pool:
        res = pool.map(_fo_task, [t[:6] + t[7:] for t in tasks], chunksize=1)
    for (name, n, simplify, present, seed_, cap, lab, zero), (st, det, bad, secs) in zip(tasks, res):
        R.paths += 1
        zl = ('|zero=' + ','.join(f'g{i}{k}' for i, k in zero)) if zero else ''
        lab = lab + zl
        if st == 'skipped':
            R.notes.append(f'symbolic.{name}[n={n},simplify={simplify}|{lab}]: not decided in this run ({det}); dimensions 2 and 3 are decided for every method, flag and cache state')
            continue
        R.ob(f'symbolic.{name}[n={n},simplify={simplify}|{lab}]:ensures', name, st, 'pit-exact-Q', secs, det,
             bad, witness=dict(n=n, simplify=simplify, present=present, seed=seed, zero=[list(z) for z in zero]),
             replay=lambda o, name=name, n=n, simplify=simplify, present=present, zero=zero: native_replay(name, n, simplify, present, zero=zero))


def getitem_obligations(R):
    """__getitem__: hit returns the cached object; miss stores func() (post-composed with sp.simplify iff the flag)"""
    import aurel.coresymbolic as CS
    R.under_contract(CS.AurelCoreSymbolic.__getitem__)
    x, y = sp.symbols('x y')
    for simplify in (True, False):
        t0 = time.time()
        rel = CS.AurelCoreSymbolic([x, y], verbose=False, simplify=simplify)
        marker = sp.Matrix([[1 + x ** 2, x * y], [x * y, 2 + y ** 2]])
        rel.data['gdown'] = marker
        ok = rel['gdown'] is marker
        calls = []
        rel.gdet = types_method(rel, lambda self: (calls.append(1), (x + 1) ** 2 - x ** 2 - 1)[1])
        v1 = rel['gdet']
        v2 = rel['gdet']
        ok = ok and len(calls) == 1 and v1 is v2 and sp.expand(v1 - 2 * x) == 0 and rel.data['gdet'] is v1
        R.ob(f'symbolic.__getitem__[simplify={simplify}]:hit-returns-cache/miss-stores-func()', '__getitem__',
             'discharged' if ok else 'refuted', 'concrete', time.time() - t0, '' if ok else 'cache protocol broken', None if ok else ['cache'])


def types_method(obj, f):
    import types

    def gdet(self):
        return f(self)
    return types.MethodType(gdet, obj)


def chain_obligations(R, seed, tier):
    import aurel.coresymbolic as CS
    orders = [KEYS[1:], list(reversed(KEYS[1:])),
              ['Ricci_down', 'Riemann_down', 'Riemann_uddd', 'Riemann_down', 'Ricci_down', 'Einstein_down', 'RicciS', 'Gamma_down']]
    cfgs = [(2, False, ()), (3, False, ()), (3, False, ((0, 1),))] + ([(2, True, ()), (4, False, ()), (4, False, ((0, 3),))] if tier != 'quick' else [])
    t_chain = time.time()
    budget = 900                      # wall-clock budget of the thorough extras (sympy on 4 dimensions is slow)
    for n, simplify, zero in cfgs:
        W = World(n, seed, explicit=True, zero=zero)
        zl = (',zero=' + ','.join(f'g{i}{k}' for i, k in zero)) if zero else ''
        for oi, order in enumerate(orders):
            if (n, simplify) in ((2, True), (4, False)) and time.time() - t_chain > budget:
                R.notes.append(f'chain n={n} simplify={simplify} order#{oi}: not run (time budget of {budget} s for the thorough extras used up); covered by the per-function obligations')
                continue
            t0 = time.time()
            rel = CS.AurelCoreSymbolic(list(W.coords), verbose=False, simplify=simplify)
            rel.data['gdown'] = W.explicit_metric
            bad = {}
            reached = []
            import signal

            def _alarm(sig, frm):
                raise TimeoutError()
            old = signal.signal(signal.SIGALRM, _alarm)
            try:
                for k in order:
                    signal.alarm(240 if (simplify or n == 4) else 900)
                    v = rel[k]
                    signal.alarm(0)
                    reached.append(k)
                    b = compare(W, v, W.S[k])
                    if b:
                        bad[k] = b
            except TimeoutError:
                R.notes.append(f'chain n={n} simplify={simplify} order#{oi}: stopped at the time cap after {reached} (sympy simplification); the remaining keys are covered by the per-function obligations only')
            except Exception as e:
                bad['raised'] = [f'{type(e).__name__}: {e}']
            finally:
                signal.alarm(0)
                signal.signal(signal.SIGALRM, old)
            for k in dict.fromkeys(reached if 'raised' not in bad else order):
                R.ob(f'symbolic.chain.{k}[n={n},simplify={simplify}{zl},order#{oi}]:property', k,
                     'refuted' if k in bad or 'raised' in bad else 'discharged', 'pit-exact-Q', (time.time() - t0) / len(order),
                     'rel[key] after the request history != textbook' if k in bad or 'raised' in bad else '',
                     bad.get(k) or bad.get('raised'),
                     replay=lambda o, k=k, n=n, simplify=simplify, zero=zero: native_replay(k, n, simplify, ['gdown'], chain=True, zero=zero))


def native_replay(name, n, simplify, present, chain=False, zero=()):
    """the real class on an explicit, human-readable non-diagonal metric, compared with an
    independent sympy computation (Christoffel -> Riemann -> Ricci from the definitions)."""
    import aurel.coresymbolic as CS
    xs = sp.symbols('x y z t')[:n]
    x, y = xs[0], xs[1]
    g = sp.zeros(n, n)
    for i in range(n):
        g[i, i] = (i + 1) + xs[i] ** 2 + (xs[(i + 1) % n]) ** 2
        for k in range(i + 1, n):
            g[i, k] = g[k, i] = xs[i] * xs[k] + xs[i]
    if n == 4:
        g[3, 3] = -g[3, 3]
    for (i, k) in zero:
        g[i, k] = g[k, i] = 0
    gi = g.inv()
    Gam = [[[sum(gi[i, m] * (sp.diff(g[m, k], xs[j]) + sp.diff(g[m, j], xs[k]) - sp.diff(g[j, k], xs[m])) for m in range(n)) / 2
             for k in range(n)] for j in range(n)] for i in range(n)]
    Riem = lambda i, j, k, h: (sp.diff(Gam[i][j][h], xs[k]) - sp.diff(Gam[i][j][k], xs[h])
                               + sum(Gam[i][k][m] * Gam[m][j][h] - Gam[i][h][m] * Gam[m][j][k] for m in range(n)))
    ref = {'Gamma_udd': lambda idx: Gam[idx[0]][idx[1]][idx[2]],
           'Gamma_down': lambda idx: sum(g[idx[0], m] * Gam[m][idx[1]][idx[2]] for m in range(n)),
           'Riemann_uddd': lambda idx: Riem(*idx),
           'Riemann_down': lambda idx: sum(g[idx[0], m] * Riem(m, *idx[1:]) for m in range(n)),
           'Ricci_down': lambda idx: sum(Riem(k, idx[0], k, idx[1]) for k in range(n)),
           'gup': lambda idx: gi[idx], 'gdet': lambda idx: g.det()}
    if name not in ref:
        ref[name] = None
    rel = CS.AurelCoreSymbolic(list(xs), verbose=False, simplify=simplify)
    rel.data['gdown'] = g
    for k in present:
        if k != 'gdown':
            rel[k]
    pt = {s: sp.Rational(3 + i, 7) for i, s in enumerate(xs)}
    lines = [f'real AurelCoreSymbolic(simplify={simplify}) on g = {g.tolist()}, after requesting {present}, at point {pt}']
    try:
        out = rel[name]
    except Exception as e:
        return False, '\n'.join(lines + [f'raised {type(e).__name__}: {e}'])
    if ref[name] is None:
        Ric = {(i, j): sum(Riem(k, i, k, j) for k in range(n)) for i in range(n) for j in range(n)}
        RS = sum(gi[i, j] * Ric[i, j] for i in range(n) for j in range(n))
        ref['RicciS'] = lambda idx: RS
        ref['Einstein_down'] = lambda idx: Ric[idx] - g[idx] * RS / 2
    bad = False
    shape = getattr(out, 'shape', ())
    for idx in (np.ndindex(*shape) if shape else [()]):
        cv = sp.nsimplify(sp.sympify(out[idx] if shape else out).subs(pt), rational=True)
        rv = sp.nsimplify(sp.sympify(ref[name](idx)).subs(pt), rational=True)
        dv = sp.simplify(cv - rv)
        # the code's 1/2 factors are binary floats: differences at rounding level are not discrepancies
        if dv != 0 and abs(float(sp.N(dv, 30))) > 1e-9 * (1 + abs(float(sp.N(rv, 30)))):
            lines.append(f'  component {list(idx)}: code {sp.N(cv, 8)} vs textbook {sp.N(rv, 8)}')
            bad = True
            if len(lines) > 10:
                break
    if not bad:
        lines.append('  no discrepancy on this metric')
    return bad, '\n'.join(lines)


def run(R):
    from engine.canary import run_canaries
    run_canaries(R, ('symx',))
    R.assume('A4', 'A5', 'A6')
    R.trust('Schwartz-Zippel over Q: 64-bit random integer Taylor coefficients, error < 2^-50 per obligation')
    R.trust('sympy diff / Matrix.inv / det / simplify are semantics-preserving (A4)')
    dims = (2, 3) if R.tier == 'quick' else (2, 3, 4)
    function_obligations(R, dims, R.seed)
    getitem_obligations(R)
    chain_obligations(R, R.seed, R.tier)
    R.notes.append('independence of the simplify flag and of the request order follows from: per-function obligations hold for both flag values and both cache states of every guard + __getitem__ only post-composes sp.simplify (A4); the chain runs cross-check it on three request orders')
