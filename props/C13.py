"""C13 save_data / read_data round-trip in Aurel format.

The real save_data, read_aurel_data and read_data run on the file-system model of engine/fsmodel.py:
iteration numbers are z3 integers (arbitrary values, arbitrary order), arrays are opaque tokens, so
the contracts are checked for all iteration values and all contents; list lengths, the variable-name
set, refinement levels {0,1,10} and the two datapath spellings are enumerated (bounded, stated).

ensures save_data (from the property): for every iit in set(it) and every selected key whose column
and entry are not None, file(iit)[key rl] == data[key][position of iit in data['it']]; every other
dataset unchanged; the caller's arguments (vars list, it list, data dict, param) unchanged.
ensures read_aurel_data: one entry per requested (sorted, de-duplicated) iteration in every column;
entry = stored array or None; with vars=[] exactly the variables having a dataset at that level.
Round trip: read o save* returns the most recently saved array per (iteration, variable, level).
"""
import copy
import itertools
import time
import z3

from engine import symx as SX
from engine.symx import Z, explore, prove, to_z3
from engine import fsmodel as FM
from engine.fsmodel import Tok, FS

LEVEL = 'other'


class SpecStore:
    """the property's own model of what is on disk: (dir, iteration, name, level) -> array"""

    def __init__(self):
        self.ent = []

    def put(self, d, it, name, rl, val):
        for e in self.ent:
            if e[0] == d and e[2] == name and e[3] == rl and bool(e[1] == it):
                e[4] = val
                return
        self.ent.append([d, it, name, rl, val])

    def get(self, d, it, name, rl):
        for e in self.ent:
            if e[0] == d and e[2] == name and e[3] == rl and bool(e[1] == it):
                return e[4]
        return None

    def has_file(self, d, it):
        return any(e[0] == d and bool(e[1] == it) for e in self.ent)

    def names_at(self, d, it, rl):
        return {e[2] for e in self.ent if e[0] == d and e[3] == rl and bool(e[1] == it)}


def norm_dir(param, restart=0):
    if 'simulation' in param:
        return param['simpath'] + param['simname'] + f'/output-{restart:04d}/' + param['simname'] + '/all_iterations/'
    p = param['datapath']
    return p if p.endswith('/') else p + '/'


def position(seq, v):
    for j, x in enumerate(seq):
        if bool(x == v):
            return j
    return None


def spec_save(store, param, data, it_arg, vars_arg, rl):
    d = norm_dir(param)
    names = list(vars_arg) if vars_arg else list(data.keys())
    for auto in ('it', 't'):
        if auto not in names and auto in data:
            names.append(auto)
    seen = []
    for iit in it_arg:
        if position(seen, iit) is not None:
            continue
        seen.append(iit)
        j = position(data['it'], iit)
        for key in names:
            col = data.get(key)
            if col is None or j is None:
                continue
            val = col[j]
            if val is None:
                continue          # "None entries are skipped as documented"
            store.put(d, iit, key, rl, val)


def spec_read(store, param, it_arg, vars_arg, rl):
    d = norm_dir(param)
    its = []
    for iit in it_arg:
        if position(its, iit) is None:
            its.append(iit)
    its = sorted(its, key=lambda z: _Key(z))
    names = set(vars_arg)
    if not vars_arg:
        for iit in its:
            names |= {n for n in store.names_at(d, iit, rl) if n != 'it'}
    names.add('t')
    names.discard('it')          # the it column is always the sorted distinct requested iterations
    out = {'it': its}
    for n in names:
        out[n] = [store.get(d, iit, n, rl) for iit in its]
    return out


class _Key:
    def __init__(self, z): self.z = z
    def __lt__(self, o): return bool(self.z < o.z)


def same_val(a, b):
    if a is None or b is None:
        return a is None and b is None
    if isinstance(a, Tok) or isinstance(b, Tok):
        return a is b
    return bool(a == b)


def scenario_list(tier):
    nmax = 2 if tier == 'quick' else 3
    scen = []
    for nd in range(1, nmax + 1):
        for n_save in (1, 2):
            for vsel in ([], ['a'], ['a', 'b']):
                for rl_s, rl_r in ((0, 0), (1, 10), (10, 1)) if tier != 'quick' or nd == 2 else ((0, 0),):
                    for slash in (True, False):
                        scen.append(dict(nd=nd, n_save=n_save, vsel=vsel, rl_s=rl_s, rl_r=rl_r, slash=slash))
    # ragged / None columns and entries, ET-style parameter dictionary, two successive saves
    scen.append(dict(nd=2, n_save=2, vsel=[], rl_s=0, rl_r=0, slash=True, none_col=True))
    scen.append(dict(nd=2, n_save=1, vsel=[], rl_s=0, rl_r=0, slash=True, none_entry=True))
    scen.append(dict(nd=2, n_save=2, vsel=['a'], rl_s=0, rl_r=0, slash=True, two_saves=True))
    scen.append(dict(nd=2, n_save=2, vsel=[], rl_s=0, rl_r=0, slash=True, et_param=True))
    scen.append(dict(nd=2, n_save=2, vsel=[], rl_s=0, rl_r=0, slash=True, cross_none=True))
    scen.append(dict(nd=2, n_save=2, vsel=['a', 'b'], rl_s=1, rl_r=1, slash=False, cross_none=True))
    # requests that name the bookkeeping columns themselves, or a variable twice
    scen.append(dict(nd=2, n_save=2, vsel=[], rl_s=0, rl_r=0, slash=True, read_vars=(['t'], ['a', 't'], ['a', 'a'])))
    scen.append(dict(nd=2, n_save=1, vsel=['a'], rl_s=0, rl_r=0, slash=False, read_vars=(['it'], ['it', 'a'], ['b', 't'])))
    if tier != 'quick':
        # three saved iterations / two successive saves on three-iteration dictionaries (1428 / 822 paths; sized to finish:
        # three iterations saved twice exceeds 4000 paths)
        scen.append(dict(nd=3, n_save=3, vsel=['b'], rl_s=1, rl_r=1, slash=False, none_col=True))
        scen.append(dict(nd=3, n_save=2, vsel=['b'], rl_s=1, rl_r=1, slash=False, two_saves=True, none_col=True))
        scen.append(dict(nd=3, n_save=3, vsel=[], rl_s=0, rl_r=0, slash=True))
        scen.append(dict(nd=3, n_save=2, vsel=['a', 'b'], rl_s=0, rl_r=0, slash=True, cross_none=True))
    return scen


def run_scenario(sc, funcs_factory):
    """one scenario, all paths.  returns list of (obligation label, ok, detail)"""
    results = []

    def body():
        c = SX.ctx()
        fs = FS()
        fn, g = funcs_factory(fs)
        nd = sc['nd']
        dits = [Z.int(f'd{j}') for j in range(nd)]
        c.assume(z3.Distinct(*[d.e for d in dits]) if nd > 1 else z3.BoolVal(True))
        for d_ in dits:
            c.assume(d_.e >= 0)
        data = {'it': list(dits), 't': [Tok(f't{j}') for j in range(nd)], 'a': [Tok(f'a{j}') for j in range(nd)],
                'b': [Tok(f'b{j}') for j in range(nd)]}
        if sc.get('none_col'):
            data['b'] = None
        if sc.get('none_entry'):
            data['a'][0] = None
        if sc.get('cross_none'):          # ragged: each variable missing at a different iteration
            data['a'][0] = None
            data['b'][nd - 1] = None
        if sc.get('et_param'):
            param = {'simulation': 'ET', 'simpath': '/sims/', 'simname': 'run'}
        else:
            param = {'datapath': '/d/' if sc['slash'] else '/d'}
        store = SpecStore()
        out = []
        saves = [(sc['n_save'], sc['vsel'])]
        if sc.get('two_saves'):
            saves.append((1, []))
        for si, (ns, vsel) in enumerate(saves):
            sits = [Z.int(f's{si}_{k}') for k in range(ns)]
            for s_ in sits:
                c.assume(z3.Or(*[s_.e == d.e for d in dits]))     # a subset of the saved dictionary's iterations
            if si == 1:
                data = dict(data)
                data['a'] = [Tok(f'a{j}new') for j in range(nd)]     # an overwriting save with new contents
            vars_arg = list(vsel)
            it_arg = list(sits)
            data_before = {k: (list(v) if isinstance(v, list) else v) for k, v in data.items()}
            param_before = dict(param)
            try:
                fn['save_data'](param, data, it=it_arg, vars=vars_arg, rl=sc['rl_s'])
                raised = None
            except (TypeError, ValueError, KeyError, IndexError) as e:
                raised = f'{type(e).__name__}: {e}'
            out.append((f'save#{si}: does not raise', raised is None, raised or ''))
            out.append((f'save#{si}: caller\'s vars list unchanged', vars_arg == list(vsel), f'vars became {vars_arg}'))
            out.append((f'save#{si}: caller\'s it list unchanged', len(it_arg) == len(sits) and all(a is b for a, b in zip(it_arg, sits)), ''))
            out.append((f'save#{si}: data dict unchanged',
                        set(data) == set(data_before) and all((data[k] is None and data_before[k] is None) or
                                                               (data[k] is not None and len(data[k]) == len(data_before[k]) and all(x is y for x, y in zip(data[k], data_before[k])))
                                                               for k in data), ''))
            out.append((f'save#{si}: param unchanged', param == param_before, ''))
            spec_save(store, param, data, sits, vsel, sc['rl_s'])
            # file contents == spec store (by iteration, not by position)
            d = norm_dir(param)
            for e in store.ent:
                rec = fs.find(f'{d}it_{e[1]}.hdf5')
                val = rec[1].get(f'{e[2]} rl={e[3]}') if rec else None
                out.append((f'save#{si}: dataset holds the array of its own iteration', same_val(val, e[4]) or (isinstance(val, Z) and bool(val == e[4])),
                            f'file it={e[1]} dataset {e[2]!r} rl={e[3]}: stored {val!r}, expected {e[4]!r}'))
            for rec in fs.files:
                tmpl, toks = FM.parse_name(rec[0])
                for dn in rec[1]:
                    nm, rl_ = dn.rsplit(' rl=', 1)
                    exp = store.get(d, toks[0], nm, int(rl_)) if toks else None
                    out.append((f'save#{si}: no dataset besides the specified ones', exp is not None, f'unexpected dataset {dn!r}'))
        # read back, same param
        nr = 2
        rits = [Z.int(f'r{k}') for k in range(nr)]
        for r_ in rits:
            c.assume(r_.e >= 0)
        for rv in ([], ['a']) + tuple(sc.get('read_vars', ())):
            try:
                reader = fn['read_aurel_data'] if 'simulation' in param else fn['read_data']
                res = reader(param, it=list(rits), vars=list(rv), rl=sc['rl_r'])
                raised = None
            except (TypeError, ValueError, KeyError, IndexError, FileNotFoundError) as e:
                raised = f'{type(e).__name__}: {e}'
                res = None
            out.append((f'read{rv}: does not raise', raised is None, raised or ''))
            if res is None:
                continue
            exp = spec_read(store, param, rits, rv, sc['rl_r'])
            n = len(exp['it'])
            out.append((f'read{rv}: it column = sorted distinct requested iterations',
                        len(res['it']) == n and all(bool(a == b) for a, b in zip(res['it'], exp['it'])), ''))
            out.append((f'read{rv}: every column has one entry per requested iteration',
                        all(len(v) == n for k, v in res.items()), str({k: len(v) for k, v in res.items()})))
            out.append((f'read{rv}: exactly the expected variables are returned', set(res) == set(exp),
                        f'got {sorted(res)}, expected {sorted(exp)}'))
            for k in exp:
                if k == 'it' or k not in res or len(res[k]) != n:
                    continue
                for j in range(n):
                    out.append((f'read{rv}: entry = most recently saved array of (it, var, level) or None',
                                same_val(res[k][j], exp[k][j]) or (isinstance(res[k][j], Z) and exp[k][j] is not None and bool(res[k][j] == exp[k][j])),
                                f'{k}[{j}] (it={exp["it"][j]}): read {res[k][j]!r}, expected {exp[k][j]!r}'))
        return out
    paths = explore(body, max_paths=4000)
    agg = {}
    for out, c in paths:
        if out is None:
            continue
        model = None
        for label, ok, detail in out:
            a = agg.setdefault(label, [0, None])
            a[0] += 1
            if not ok and a[1] is None:
                s = z3.Solver()
                s.add(*c.pc)
                s.check()
                a[1] = f'{detail}; iteration values {s.model()}'
    return agg, len(paths)


def _run_one(sc):
    try:
        agg, n = run_scenario(sc, FM.rebind_reading)
        return agg, n, None
    except SX.PathAbort as e:
        return {}, 0, str(e)
    except Exception as e:
        import traceback
        return {}, 0, 'crash: ' + traceback.format_exc()[-600:]


def native_replay(o=None, ntrials=300):
    """the documented counterexamples and a randomised search on the real functions (tmp dir)"""
    import tempfile, shutil, random
    import numpy as np
    import aurel
    lines, bad = [], False
    rng = random.Random(0)
    # ragged dictionaries read back with vars=[] (discovery of variables over several files)
    for nd in (2, 3, 4):
        d = tempfile.mkdtemp(prefix='c13_')
        try:
            its = list(range(nd))
            cols = {'a': [None if i % 2 == 0 else np.full((2, 2), 10.0 * i + 1) for i in its],
                    'b': [np.full((2,), 10.0 * i + 2) if i % 2 == 0 else None for i in its]}
            if nd == 4:
                cols['c'] = [np.full((3,), 10.0 * i + 3) if i == 3 else None for i in its]
            data = {'it': list(its), 't': [float(i) for i in its], **cols}
            aurel.save_data({'datapath': d}, data, it=list(its))
            for want in ([0, 1], its, its[1:], its[::-1]):
                res = aurel.read_data({'datapath': d}, it=list(want), vars=[])
                names = {k for k in cols if any(cols[k][i] is not None for i in want)}
                if set(res) != names | {'it', 't'}:
                    lines.append(f'ragged dictionary (a saved at odd, b at even iterations): read_data(it={want}, vars=[]) returns variables {sorted(res)}, '
                                 f'expected {sorted(names | {"it", "t"})}')
                    bad = True
                    break
                for k in names:
                    for j, i in enumerate(sorted(set(want))):
                        exp, got = cols[k][i], res[k][j]
                        if (exp is None) != (got is None) or (exp is not None and not np.array_equal(exp, got)):
                            lines.append(f'ragged dictionary: read_data(it={want}, vars=[]): {k} at it={i} is {got!r}, saved {exp!r}')
                            bad = True
                            break
                if bad:
                    break
        except Exception as e:
            lines.append(f'ragged dictionary: raised {type(e).__name__}: {e}')
            bad = True
        finally:
            shutil.rmtree(d, ignore_errors=True)
        if bad:
            return bad, '\n'.join(lines)
    for trial in range(ntrials):
        d = tempfile.mkdtemp(prefix='c13_')
        try:
            slash = rng.random() < 0.5
            param = {'datapath': d + ('/' if slash else '')}
            nd = rng.choice([1, 2, 3, 3, 4, 4, 5, 6, 8])
            its = rng.sample(range(0, 40), nd)
            if nd >= 4 and trial % 3 == 0:
                # smallest first, largest last, the middle in arbitrary order (positional and by-iteration indexing differ
                # although both ends agree)
                mid = sorted(its)[1:-1]
                rng.shuffle(mid)
                its = [min(its)] + mid + [max(its)]
            # non-constant arrays in varying memory layouts (C, Fortran order, transposed views, strided views): the stored
            # dataset is the logical array, whatever its strides
            def arr_a(i):
                base = (10.0 * i + 1) + np.arange(6).reshape(2, 3) * 0.01
                how = rng.choice(['C', 'F', 'T', 'S', 'C'])
                if how == 'F':
                    return np.asfortranarray(base)
                if how == 'T':
                    return np.ascontiguousarray(base.T).T
                if how == 'S':
                    return np.repeat(base, 2, axis=1)[:, ::2]
                return base
            data = {'it': list(its), 't': [float(i) for i in its], 'a': [arr_a(i) for i in its],
                    'b': [np.full((2,), 10.0 * i + 2) for i in its]}
            sel = rng.sample(its, rng.randint(1, nd))
            vs = rng.choice([[], ['a'], ['a', 'b']])
            vs_before = list(vs)
            rl_s, rl_r = rng.choice([(0, 0), (1, 1), (1, 10), (10, 1), (10, 10), (12, 12), (3, 3), (9, 9), (100, 100), (1, 11), (21, 2)])
            aurel.save_data(param, data, it=list(sel), vars=vs, rl=rl_s)
            if vs != vs_before:
                lines.append(f'save_data(vars={vs_before}) left the caller\'s list as {vs}')
                bad = True
                break
            res = aurel.read_data(param, it=list(its), vars=['a'], rl=rl_r)
            for j, i in enumerate(sorted(set(its))):
                exp = (10.0 * i + 1) if (i in sel and rl_s == rl_r) else None
                got = res['a'][j]
                if exp is not None and got is not None and not np.array_equal(np.asarray(got), (10.0 * i + 1) + np.arange(6).reshape(2, 3) * 0.01):
                    lines.append(f'data its {its}, saved it={sel} vars={vs_before} rl={rl_s}: the array read back for a at it={i} is {np.asarray(got).tolist()}, '
                                 f'saved {((10.0 * i + 1) + np.arange(6).reshape(2, 3) * 0.01).tolist()} (memory layout of the saved array: '
                                 f'C-contiguous={data["a"][its.index(i)].flags["C_CONTIGUOUS"]})')
                    bad = True
                    break
                if (exp is None) != (got is None) or (exp is not None and float(np.ravel(got)[0]) != exp):
                    lines.append(f'data its {its}, saved it={sel} vars={vs_before} rl={rl_s} datapath slash={slash}; read it={sorted(set(its))} rl={rl_r}: '
                                 f'a at it={i} is {None if got is None else float(np.ravel(got)[0])}, expected {exp}')
                    bad = True
                    break
            if not bad:
                rv = rng.choice([['t'], ['a', 't'], ['it'], ['it', 'a'], ['a', 'a'], ['b', 't']])
                want = sorted(set(its)) + [max(its) + 3]          # one iteration that was never saved
                r2 = aurel.read_data(param, it=list(want), vars=list(rv), rl=rl_r)
                lens = {k: len(v) for k, v in r2.items()}
                if any(n != len(want) for n in lens.values()):
                    lines.append(f'saved it={sel}; read_data(it={want}, vars={rv}, rl={rl_r}) returns columns of lengths {lens}: '
                                 f'not one entry per requested iteration ({len(want)})')
                    bad = True
                elif [None if x is None else int(x) for x in r2['it']] != want:
                    lines.append(f'saved it={sel}; read_data(it={want}, vars={rv}, rl={rl_r}) returns it column {list(r2["it"])}, requested {want}')
                    bad = True
            if not bad and rl_r == rl_s:
                # discovery: with vars omitted or empty, exactly the variables saved at this level come back
                saved_names = set(vs_before) if vs_before else {'a', 'b'}
                for kw in (dict(vars=[]), dict()):
                    allv = aurel.read_data(param, it=list(sel), rl=rl_r, **kw)
                    got_names = {k for k in allv if k not in ('it', 't')}
                    if got_names != saved_names:
                        lines.append(f'saved it={sel} vars={vs_before or "all"} at rl={rl_s}; read_data(it={sel}, rl={rl_r}, {kw}) discovers variables '
                                     f'{sorted(got_names)}, on disk at that level: {sorted(saved_names)}')
                        bad = True
                        break
            if not bad and rl_r != rl_s:
                allv = aurel.read_data(param, it=list(sel), vars=[], rl=rl_r)
                extra = [k for k in allv if k not in ('it', 't')]
                if extra:
                    lines.append(f'saved at rl={rl_s}, read vars=[] at rl={rl_r}: variables {extra} reported')
                    bad = True
            if bad:
                break
        except Exception as e:
            lines.append(f'raised {type(e).__name__}: {e}')
            bad = True
            break
        finally:
            shutil.rmtree(d, ignore_errors=True)
    if not bad:
        lines.append(f'{ntrials} random save/read round trips on the real functions (dictionaries of 1-8 iterations in any order): all as specified')
    return bad, '\n'.join(lines)


def roundtrip_lemmas(R):
    """the property as a lemma over the two proved contracts (z3, all sizes, any number of successive saves):
      save ensures  : has'(i,q) = cond(i,q) or has(i,q);  val'(i,q) = ent(q, idx(i)) if cond(i,q) else val(i,q);
                      exists'(i) = exists(i) or i in it           [savevc: ensures + 'opens exactly the file of its iteration']
      read ensures  : entry(i,q) = val(i,q) if exists(i) and has(i,q) else None                         [readvc]
      invariant WF  : has(i,q) -> exists(i)     (a dataset lives in a file)
    L1  WF is preserved by a save (cond(i,q) -> i in it).
    L2  what a save stores is what a read returns:      cond(i,q)  -> Read'(i,q) = Some(ent(q, idx(i)))
    L3  everything else reads as before the save:   not cond(i,q)  -> Read'(i,q) = Read(i,q)
    By induction over the sequence of saves: a read returns, for every (iteration, variable, level), the array of the most
    recent save that selected it and had a non-None entry for it, and None if there is none."""
    import z3
    from engine.symx import prove
    I_, B_ = z3.IntSort(), z3.BoolSort()
    ex, init = z3.Function('exists', I_, B_), z3.Function('init', I_, B_)
    has, cond = z3.Function('has', I_, I_, B_), z3.Function('cond', I_, I_, B_)
    val, ent = z3.Function('val', I_, I_, I_), z3.Function('ent', I_, I_, I_)
    i, q = z3.Int('i'), z3.Int('q')
    has1 = lambda a, b: z3.Or(cond(a, b), has(a, b))
    val1 = lambda a, b: z3.If(cond(a, b), ent(a, b), val(a, b))
    ex1 = lambda a: z3.Or(ex(a), init(a))
    WF = z3.ForAll([i, q], z3.Implies(has(i, q), ex(i)))
    sel = z3.ForAll([i, q], z3.Implies(cond(i, q), init(i)))           # only iterations passed to save_data are written
    NONE = z3.IntVal(-1)
    some = lambda v: v                                                      # entries are ids >= 0; None is -1
    nonneg = z3.ForAll([i, q], z3.And(val(i, q) >= 0, ent(i, q) >= 0))
    read0 = lambda a, b: z3.If(z3.And(ex(a), has(a, b)), val(a, b), NONE)
    read1 = lambda a, b: z3.If(z3.And(ex1(a), has1(a, b)), val1(a, b), NONE)
    lemmas = [('L1 well-formedness (a dataset lives in an existing file) is preserved by a save', z3.Implies(z3.And(WF, sel), z3.ForAll([i, q], z3.Implies(has1(i, q), ex1(i))))),
              ('L2 what a save stores is what the next read returns', z3.Implies(z3.And(WF, sel, nonneg), z3.ForAll([i, q], z3.Implies(cond(i, q), read1(i, q) == ent(i, q))))),
              ('L3 every other (iteration, variable) reads as before the save', z3.Implies(z3.And(WF, sel, nonneg), z3.ForAll([i, q], z3.Implies(z3.Not(cond(i, q)), read1(i, q) == read0(i, q))))),
              ('L0 (vacuity) the hypotheses are satisfiable', z3.Not(z3.And(WF, sel, nonneg, cond(0, 0))))]
    for name, goal in lemmas:
        t0 = time.time()
        v, model, secs = prove([], goal, 20000)
        if name.startswith('L0'):
            st = 'discharged' if v == 'invalid' else 'undecided'
            det = 'a model of the hypotheses exists' if v == 'invalid' else f'hypotheses not shown satisfiable: {v}'
        else:
            st = 'discharged' if v == 'valid' else ('refuted' if v == 'invalid' else 'undecided')
            det = '' if v == 'valid' else str(model)[:300]
        R.ob(f'lemma.roundtrip:{name}', 'read_data', st, 'z3', secs, det, [name] if st == 'refuted' else None, replay=native_replay)


def run(R):
    from engine.canary import run_canaries
    run_canaries(R, ('symx',))
    import aurel.reading as Rm
    for n in ('save_data', 'read_aurel_data', 'read_data'):
        R.under_contract(getattr(Rm, n))
    R.assume('A4', 'A6')
    R.trust('h5py contract as modelled in engine/fsmodel.py: file = map name -> array; create_dataset on an existing name / with data=None raises; os.path.exists reflects created files')
    R.trust('requires: the iteration values of data["it"] are distinct; the iterations passed to save_data are among them')
    t0n = time.time()
    ntr = 300 if R.tier == 'quick' else 3000
    badn, textn = native_replay(None, ntr)
    R.bounded.append(dict(function='aurel.save_data / aurel.read_data (native)', bound=f'{ntr} random round trips in temporary directories: dictionaries of 1-8 iterations in any order, subsets, levels, ragged None, requests naming t / it'))
    R.ob('reading.roundtrip[native, random]:read_data(save_data(...)) == saved entries on real files', 'save_data', 'refuted' if badn else 'bounded-ok', 'bounded-native',
         time.time() - t0n, textn if badn else f'{ntr} round trips', [textn[:200]] if badn else None, bounded=f'{ntr} random round trips', replay=lambda o: native_replay(o, ntr))
    roundtrip_lemmas(R)
    from props import savevc
    savevc.save_obligations(R)          # unbounded: loop contracts on the real statements of save_data
    from props import readvc
    readvc.read_obligations(R)          # unbounded: invariant of the loop over the requested iterations of read_aurel_data
    scen = scenario_list(R.tier)
    scen.sort(key=lambda sc: -(sc['nd'] * 10 + sc['n_save'] * 3 + (5 if sc.get('two_saves') else 0)))
    R.bounded.append(dict(function='save_data / read_aurel_data / read_data',
                          bound=f'{len(scen)} shapes: data with <= {2 if R.tier == "quick" else 3} iterations, <= 3 saved iterations, 2 read iterations, variable subsets of {{a,b}}, levels in {{0,1,10}}, datapath with/without trailing slash, ET-style param, None column / None entry, up to 2 successive saves; iteration VALUES and array CONTENTS are symbolic (all values)'))
    total = {}
    npaths = 0
    t0 = time.time()
    import multiprocessing as mp
    with mp.Pool(min(14, len(scen))) as pool:
        outs = pool.map(_run_one, scen, chunksize=1)
    for sc, (agg, n, err) in zip(scen, outs):
        if err:
            R.ob(f'reading.roundtrip[{sc}]:paths', 'save_data', 'undecided', 'z3-paths', 0.0, err)
            continue
        npaths += n
        for label, (cnt, fail) in agg.items():
            t = total.setdefault(label, [0, None, None])
            t[0] += cnt
            if fail and t[1] is None:
                t[1], t[2] = fail, sc
    R.paths += npaths
    secs = time.time() - t0
    for label, (cnt, fail, sc) in sorted(total.items()):
        fn = 'save_data' if label.startswith('save') else 'read_aurel_data'
        name = f'reading.{fn}:{label}'
        if fail:
            R.ob(name, fn, 'refuted', 'z3-paths', secs / max(len(total), 1), f'{fail}; scenario {sc}', [label], replay=native_replay)
        else:
            R.ob(name, fn, 'bounded-ok', 'z3-paths', secs / max(len(total), 1), f'{cnt} checks over all paths',
                 bounded='list lengths / name sets enumerated; iteration values and contents symbolic')
    R.extra['explanation'] = ('save_data: loop contracts (inductive steps from an arbitrary file-system state, z3) -- unbounded in the number of iterations, variables and entries; '
                              'contracts of save_data / read_aurel_data / read_data checked on every path of the real code over symbolic '
                              'iteration values and opaque array contents; list lengths, variable-name subsets, levels and path spellings '
                              f'enumerated ({len(scen)} shapes, {npaths} paths): bounded in shape, unbounded in values')
