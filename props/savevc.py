"""Loop contracts for aurel.reading.save_data -- UNBOUNDED in the number of saved iterations, of variables and of
entries of the data dictionary (C13; the bounded path enumeration of props/C13.py stays as a cross-check).

The real statements of save_data are cut out of its AST (mechanically, every run) and executed on symbolic
arguments; the two loops are verified through sidecar loop contracts keyed by loop ordinal:

  arguments   data   : indata(k), colnone(k) [data[k] is None], entnone(k,p) [data[k][p] is None], ent(k,p) (opaque)
              vars   : invars(k), vars_empty;      it : init(i)  (any list: duplicates and order are irrelevant
              after sorted(set(.)));   pos(i) = list(data['it']).index(i);   rank(i) = position of i in sorted(set(it))
  file system has[suffix][i][k], val[suffix][i][k]   (file it_<i>.hdf5, dataset '<k><suffix>')

  loop #1 (for key in vars), inductive step from an ARBITRARY state: the body changes nothing but dataset
          (i, key, ' rl=<rl>') and leaves it  present with ent(key, it_index)  if data[key] and the entry are not None,
          untouched otherwise (independent of what was there: repeated names in vars are harmless)
  loop #0 (for it_index, iit in enumerate(it)), inductive step from an ARBITRARY state: only file i changes
  ensures  forall i, k:  dataset (i,k,rl) afterwards ==  ent(k, idx(i))  if  i in it and k in V and cond(k, idx(i))
                                                        what it was before  otherwise
           V = (vars, or all keys of data if vars == []) + 'it' and 't' when data has them,
           idx(i) = pos(i) if data['it'] is given else rank(i);   all other suffixes and files untouched;
           vars / it / data / param of the caller unchanged;  no exception under the stated requires.
"""
import ast
import builtins
import time
import z3

from engine import symx as SX
from engine.symx import Z, explore, prove, to_z3, run_block
from engine import fsmodel as FM        # Z.__format__ -> embedded tokens in f-strings

I = z3.IntSort()
B = z3.BoolSort()
LIT = {'it': 1, 't': 2}


def lit_id(name):
    if name not in LIT:
        LIT[name] = 10 + len(LIT)
    return LIT[name]


def kid(k):
    """z3 id of a key given as SKey / literal string"""
    if isinstance(k, SKey):
        return k.e
    if isinstance(k, str):
        return z3.IntVal(lit_id(k))
    raise SX.PathAbort(f'unexpected key object {k!r}')


class SKey(Z):
    """a variable name (symbolic)"""

    def __add__(self, o):
        if isinstance(o, str):
            return SName(self.e, o)
        raise SX.PathAbort('key + non-string')

    def __hash__(self):
        return 11


class SName:
    """dataset name '<key><suffix>'"""

    def __init__(self, k, suffix):
        self.k, self.suffix = k, suffix


def as_name(x):
    if isinstance(x, SName):
        return x
    if isinstance(x, str) and ' rl=' in x:
        head, tail = x.split(' rl=', 1)
        return SName(z3.IntVal(lit_id(head)), ' rl=' + tail)
    raise SX.PathAbort(f'dataset name not understood: {x!r}')


class World:
    def __init__(self, c):
        self.c = c
        self.indata = z3.Function('indata', I, B)
        self.colnone = z3.Function('colnone', I, B)
        self.entnone = z3.Function('entnone', I, I, B)
        self.ent = z3.Function('ent', I, I, I)
        self.invars = z3.Function('invars', I, B)
        self.vars_empty = z3.Bool('vars_empty')
        self.init = z3.Function('init', I, B)
        self.pos = z3.Function('pos', I, I)
        self.rank = z3.Function('rank', I, I)
        k = z3.Int('k!w')
        c.assume(z3.Implies(self.vars_empty, z3.ForAll([k], z3.Not(self.invars(k)))))
        kw = z3.Int('k!some')
        c.assume(z3.Implies(z3.Not(self.vars_empty), self.invars(kw)))
        # requires: the names in vars are keys of data (else KeyError, as documented)
        c.assume(z3.ForAll([k], z3.Implies(self.invars(k), self.indata(k))))
        self.itat = z3.Function('itat', I, I)
        self.n = z3.Int('n_it')
        self.dat = z3.Function('dat', I, I)          # list(data['it'])[p]
        self.ndat = z3.Int('n_data_it')
        a, b = z3.Int('i!a'), z3.Int('i!b')
        m = z3.Int('m!w')
        self._seq_axioms = False
        # rank = position in sorted(set(it)): 0-based, strictly increasing with the iteration value
        c.assume(z3.ForAll([a], z3.Implies(self.init(a), self.rank(a) >= 0)))
        c.assume(z3.ForAll([a, b], z3.Implies(z3.And(self.init(a), self.init(b), a < b), self.rank(a) < self.rank(b))))
        self.fs = FSState()
        self.frame = []
        self.opened = []
        self.colreads = []          # (key, position) of every read data[key][position]

    def need_sequences(self):
        """facts about the two lists as SEQUENCES (length, element at a position): only added when the code asks for a length,
        a slice or an element by position -- the plain loop needs none of them, and they slow every solver call"""
        if self._seq_axioms:
            return
        self._seq_axioms = True
        c = self.c
        a, b, m = z3.Int('i!sa'), z3.Int('i!sb'), z3.Int('m!sw')
        c.assume(z3.And(self.n >= 0, self.ndat >= 0))
        c.assume(z3.ForAll([a], z3.Implies(self.init(a), z3.And(self.rank(a) < self.n, self.itat(self.rank(a)) == a))))
        c.assume(z3.ForAll([m], z3.Implies(z3.And(m >= 0, m < self.n), z3.And(self.init(self.itat(m)), self.rank(self.itat(m)) == m))))
        # requires: the iterations passed to save_data are among data['it'] (distinct values): pos is their position there
        c.assume(z3.ForAll([a], z3.Implies(self.init(a), z3.And(self.pos(a) >= 0, self.pos(a) < self.ndat, self.dat(self.pos(a)) == a))))
        c.assume(z3.ForAll([a, b], z3.Implies(z3.And(a >= 0, a < self.ndat, b >= 0, b < self.ndat, a != b), self.dat(a) != self.dat(b))))


class FSState:
    def __init__(self):
        self.has, self.val = {}, {}
        self.log = []

    def arrays(self, sfx):
        if sfx not in self.has:
            self.has[sfx] = z3.Array(f'has[{sfx}]', I, z3.ArraySort(I, B))
            self.val[sfx] = z3.Array(f'val[{sfx}]', I, z3.ArraySort(I, I))
        return self.has[sfx], self.val[sfx]

    def present(self, i, nm):
        h, _ = self.arrays(nm.suffix)
        return z3.Select(z3.Select(h, i), nm.k)

    def value(self, i, nm):
        _, v = self.arrays(nm.suffix)
        return z3.Select(z3.Select(v, i), nm.k)

    def write(self, i, nm, present, value=None):
        h, v = self.arrays(nm.suffix)
        self.has[nm.suffix] = z3.Store(h, i, z3.Store(z3.Select(h, i), nm.k, z3.BoolVal(present)))
        if value is not None:
            self.val[nm.suffix] = z3.Store(v, i, z3.Store(z3.Select(v, i), nm.k, value))
        self.log.append(('write', i, nm.k, nm.suffix))

    def havoc(self, tag):
        for sfx in list(self.has):
            self.has[sfx] = z3.Array(f'has[{sfx}]!{tag}', I, z3.ArraySort(I, B))
            self.val[sfx] = z3.Array(f'val[{sfx}]!{tag}', I, z3.ArraySort(I, I))

    def snapshot(self):
        return dict(self.has), dict(self.val)


class SVarList:
    def __init__(self, pred, empty, owner=None):
        self.pred, self.empty, self.mutated = pred, empty, False

    def copy(self):
        return SVarList(self.pred, self.empty)

    def __eq__(self, o):
        if isinstance(o, list) and o == []:
            return SX.ctx().branch(self.empty)
        raise SX.PathAbort('list comparison other than == []')

    def __ne__(self, o):
        return not self.__eq__(o)

    __hash__ = None

    def __contains__(self, name):
        return SX.ctx().branch(self.pred(kid(name)))

    def __bool__(self):
        # truthiness of a list: non-empty
        e = self.empty
        return SX.ctx().branch(z3.Not(e) if z3.is_expr(e) else z3.BoolVal(not e))

    def __len__(self):
        raise SX.PathAbort('len() of a symbolic list of names')

    def __iadd__(self, lst):
        if isinstance(lst, SVarList):
            old, new = self.pred, lst.pred
            self.pred = lambda k, old=old, new=new: z3.Or(old(k), new(k))
            self.empty = z3.And(self.empty, lst.empty) if z3.is_expr(self.empty) and z3.is_expr(lst.empty) else z3.BoolVal(False)
            self.mutated = True
            return self
        ids = [kid(x) for x in lst]
        old = self.pred
        self.pred = lambda k, old=old, ids=ids: z3.Or(old(k), *[k == q for q in ids])
        if ids:
            self.empty = z3.BoolVal(False)
        self.mutated = True
        return self

    def append(self, x):
        self.__iadd__([x])

    def extend(self, lst):
        self.__iadd__(lst)

    def __iter__(self):
        raise SX.PathAbort('iteration over a symbolic list outside a loop contract')


class SIterList:
    """the caller's `it` list"""
    world = None

    def __bool__(self):
        raise SX.PathAbort('truth value of the symbolic iteration list')

    def __init__(self, pred):
        self.pred = pred

    def __iter__(self):
        raise SX.PathAbort('iteration over the symbolic it list')


class SIterSet(SIterList):
    pass


class SSorted(SIterList):
    """sorted(set(it)): distinct iteration values in increasing order"""

    def __getitem__(self, n):
        w = self.world
        if w is not None and hasattr(w, 'itat'):
            w.need_sequences()
            return SeqView(w.n, lambda p: w.itat(p)).__getitem__(n)
        if n == 0 or n == -1:
            c = SX.ctx()
            m = c.new_int('it_first' if n == 0 else 'it_last')
            q = z3.Int('i!m')
            c.assume(self.pred(m))
            c.assume(z3.ForAll([q], z3.Implies(self.pred(q), (m <= q) if n == 0 else (q <= m))))
            if n == 0 and self.world is not None:
                c.assume(self.world.rank(m) == 0)
            return Z(m)
        raise SX.PathAbort('indexing the sorted iteration list at a position other than 0 / -1')


class Attr:
    """shape / dtype of an opaque array: equality with another one is unknown (forks the path)"""
    SAME = {}

    def __init__(self, kind, e):
        self.kind, self.e = kind, e

    def __eq__(self, o):
        if not isinstance(o, Attr) or o.kind != self.kind:
            return False
        f = Attr.SAME.setdefault(self.kind, z3.Function('same_' + self.kind, I, I, B))
        return SX.ctx().branch(z3.Or(self.e == o.e, f(self.e, o.e)))

    def __ne__(self, o):
        return not self.__eq__(o)

    __hash__ = None


class SeqView:
    """a symbolic sequence of iteration values: length (z3 Int) and element function; supports len(), [0], [-1], [:1], [-1:],
    == between two views of length <= 1"""

    def __init__(self, length, at):
        self.length, self.at = length, at

    def first(self):
        return self.at(z3.IntVal(0))

    def last(self):
        return self.at(self.length - 1)

    def __getitem__(self, n):
        c = SX.ctx()
        if isinstance(n, slice):
            if (n.start, n.stop, n.step) == (None, 1, None):
                return HeadTail(self.length, self.first())
            if (n.start, n.stop, n.step) == (-1, None, None):
                return HeadTail(self.length, self.last())
            raise SX.PathAbort(f'slice {n} of a symbolic sequence')
        if n == 0 or n == -1:
            c.require('indexing a sequence of iterations: it is not empty (no IndexError)', self.length > 0)
            return Z(self.first() if n == 0 else self.last())
        raise SX.PathAbort('indexing a symbolic sequence at a position other than 0 / -1')


class HeadTail:
    """seq[:1] or seq[-1:]: empty, or the one-element list [e]"""

    def __init__(self, length, e):
        self.length, self.e = length, e

    def __eq__(self, o):
        if isinstance(o, HeadTail):
            return Z(z3.Or(z3.And(self.length <= 0, o.length <= 0), z3.And(self.length > 0, o.length > 0, self.e == o.e)))
        if isinstance(o, list) and o == []:
            return Z(self.length <= 0)
        raise SX.PathAbort('comparison of a one-element slice with something else')

    def __ne__(self, o):
        r = self.__eq__(o)
        return Z(z3.Not(r.e))

    __hash__ = None


class SVal:
    def __init__(self, e):
        self.e = e

    @property
    def shape(self):
        return Attr('shape', self.e)

    @property
    def dtype(self):
        return Attr('dtype', self.e)


class SCol:
    def __init__(self, w, k):
        self.w, self.k = w, k

    def __getitem__(self, p):
        w = self.w
        pe = to_z3(p)
        w.colreads.append((self.k, pe))
        if SX.ctx().branch(w.entnone(self.k, pe)):
            return None
        return SVal(w.ent(self.k, pe))


class SItsCol(SCol):
    """data['it']"""
    pass


class SItsList(SeqView):
    """list(data['it'])"""

    def __init__(self, w):
        self.w = w
        SeqView.__init__(self, w.ndat, lambda p: w.dat(p))

    def __getitem__(self, n):
        self.w.need_sequences()
        return SeqView.__getitem__(self, n)

    def index(self, i):
        # requires: every iteration passed to save_data is one of data['it'] (else ValueError)
        return Z(self.w.pos(to_z3(i)))


class SDataKeys:
    def __init__(self, w):
        self.w = w

    def __bool__(self):
        raise SX.PathAbort('truth value of the key view of the symbolic data dictionary')

    def __contains__(self, name):
        return SX.ctx().branch(self.w.indata(kid(name)))


class SData:
    def __init__(self, w):
        self.w = w

    def __iter__(self):
        raise SX.PathAbort('iteration over the symbolic data dictionary outside a loop contract')

    def __bool__(self):
        raise SX.PathAbort('truth value of the symbolic data dictionary')

    def __len__(self):
        raise SX.PathAbort('len() of the symbolic data dictionary')

    def keys(self):
        return SDataKeys(self.w)

    def __contains__(self, name):
        return SX.ctx().branch(self.w.indata(kid(name)))

    def __getitem__(self, k):
        w = self.w
        q = kid(k)
        SX.ctx().require('data[key]: the key exists (no KeyError)', w.indata(q))
        if SX.ctx().branch(w.colnone(q)):
            return None
        if isinstance(k, str) and k == 'it':
            return SItsCol(w, q)
        return SCol(w, q)


class FKeys:
    def __init__(self, f):
        self.f = f

    def __bool__(self):
        raise SX.PathAbort('truth value of the dataset list of a file')

    def __contains__(self, name):
        nm = as_name(name)
        return SX.ctx().branch(self.f.w.fs.present(self.f.i, nm))


class FileView:
    def __init__(self, w, i, mode):
        self.w, self.i, self.mode = w, i, mode
        w.opened.append((i, mode))

    def __enter__(self):
        return self

    def __exit__(self, *a):
        return False

    def keys(self):
        return FKeys(self)

    def __contains__(self, name):
        return FKeys(self).__contains__(name)

    def __delitem__(self, name):
        nm = as_name(name)
        c = SX.ctx()
        c.require('del f[name]: the dataset exists (no KeyError)', self.w.fs.present(self.i, nm))
        self.w.fs.write(self.i, nm, False)

    def __getitem__(self, name):
        nm = as_name(name)
        SX.ctx().require('f[name]: the dataset exists (no KeyError)', self.w.fs.present(self.i, nm))
        return DSView(self, nm)

    def create_dataset(self, name, data=None, **kw):
        nm = as_name(name)
        c = SX.ctx()
        c.require('create_dataset: data is not None (h5py raises TypeError)', z3.BoolVal(data is not None))
        if data is None:
            raise SX.PathEnd()
        c.require('create_dataset: the name does not exist yet (h5py raises ValueError)', z3.Not(self.w.fs.present(self.i, nm)))
        if not isinstance(data, SVal):
            raise SX.PathAbort(f'create_dataset with an unexpected value {data!r}')
        self.w.fs.write(self.i, nm, True, data.e)


class DSView:
    """an existing h5py dataset: an in-place write keeps the dataset's dtype and shape, i.e. the stored values are
    cast(new, dtype of the first write) -- equal to the new array only if the dtypes agree, which nothing guarantees"""
    CAST = z3.Function('cast_to_stored_dtype', I, I, I)

    def __init__(self, f, nm):
        self.f, self.nm = f, nm

    def __setitem__(self, sel, v):
        if not isinstance(v, SVal):
            raise SX.PathAbort('in-place write of an unexpected value')
        fs = self.f.w.fs
        fs.write(self.f.i, self.nm, True, DSView.CAST(fs.value(self.f.i, self.nm), v.e))

    def __getitem__(self, sel):
        return SVal(self.f.w.fs.value(self.f.i, self.nm))

    @property
    def shape(self):
        return Attr('shape', self.f.w.fs.value(self.f.i, self.nm))

    @property
    def dtype(self):
        return Attr('dtype', self.f.w.fs.value(self.f.i, self.nm))


def make_globals(w, real_globals, datapath_ok):
    g = dict(real_globals)

    def s_list(x=()):
        if isinstance(x, SVarList):
            return x.copy()
        if isinstance(x, (SDataKeys, SData)):
            # list(data.keys()): all names of the dictionary; it is non-empty whenever a column exists
            return SVarList(lambda k: w.indata(k), z3.Bool('data_empty'))
        if isinstance(x, SItsCol):
            return SItsList(w)
        if isinstance(x, FKeys):
            return x
        return builtins.list(x)

    def s_set(x=()):
        if isinstance(x, SIterList):
            return SIterSet(x.pred)
        return builtins.set(x)

    def s_sorted(x, **kw):
        if isinstance(x, SIterList):
            return SSorted(x.pred)
        return builtins.sorted(x, **kw)

    def s_int(v, *a):
        return v if isinstance(v, Z) else builtins.int(v, *a)

    def s_len(x):
        if isinstance(x, SeqView):
            w.need_sequences()
            return Z(x.length)
        if isinstance(x, SSorted) and hasattr(w, 'n'):
            w.need_sequences()
            return Z(w.n)
        if isinstance(x, (SVarList, SIterList, SData)):
            raise SX.PathAbort(f'len() of a symbolic {type(x).__name__}')
        return builtins.len(x)

    class H5:
        def File(self, name, mode='r'):
            tmpl, toks = FM.parse_name(name)
            if builtins.len(toks) != 1 or not datapath_ok(tmpl):
                SX.ctx().require(f'file name is <datapath>/it_<iteration>.hdf5 (got template {tmpl!r})', z3.BoolVal(False))
                raise SX.PathEnd()
            return FileView(w, to_z3(toks[0]), mode)

    class OSP:
        def exists(self, p):
            return True

        def __getattr__(self, n):
            import os
            return getattr(os.path, n)

    class OS:
        path = OSP()

        def makedirs(self, p, **k):
            w.frame.append(('makedirs', p))

        def __getattr__(self, n):
            import os
            return getattr(os, n)
    class NP:
        def __getattr__(self, n):
            import numpy
            return getattr(numpy, n)

        def array(self, x, *a, **k):
            if isinstance(x, (SVal, DSView)):
                return x if isinstance(x, SVal) else x[...]
            import numpy
            return numpy.array(x, *a, **k)
        asarray = array

        def shape(self, x):
            return x.shape if isinstance(x, (SVal, DSView)) else getattr(x, 'shape', ())
    g.update(list=s_list, set=s_set, sorted=s_sorted, int=s_int, len=s_len, h5py=H5(), os=OS(), np=NP(), print=lambda *a, **k: None)
    return g


def eval_expr(node, glb, loc):
    return eval(compile(ast.Expression(body=node), '<test>', 'eval'), glb, loc)


class Driver:
    def __init__(self, w, glb, loops, rl):
        self.w, self.glb, self.loops, self.rl = w, glb, loops, rl
        self.c = w.c
        self.summary0 = None

    def run_stmts(self, stmts, loc):
        """-> 'completed' | 'break' | 'continue' (of the innermost enclosing loop)"""
        seg = []

        def flush():
            nonlocal seg
            if seg:
                st_ = SX.run_block_status(seg, self.glb, loc)
                seg = []
                return st_
            return 'completed'
        for st in stmts:
            if isinstance(st, (ast.For, ast.While, ast.If, ast.With)):
                r = flush()
                if r != 'completed':
                    return r
                if isinstance(st, ast.If):
                    t = eval_expr(st.test, self.glb, loc)
                    r = self.run_stmts(st.body if bool(t) else st.orelse, loc)
                    if r != 'completed':
                        return r
                elif isinstance(st, ast.With):
                    if len(st.items) != 1:
                        raise SX.PathAbort('with-statement with several items')
                    cm = eval_expr(st.items[0].context_expr, self.glb, loc)
                    v = cm.__enter__()
                    if st.items[0].optional_vars is not None:
                        loc[st.items[0].optional_vars.id] = v
                    r = self.run_stmts(st.body, loc)
                    cm.__exit__(None, None, None)
                    if r != 'completed':
                        return r
                elif isinstance(st, ast.While):
                    raise SX.PathAbort('while loop without a contract')
                else:
                    self.loop(st, loc)
            else:
                seg.append(st)
        return flush()

    def targets(self, node):
        t = node.target
        return [n.id for n in (t.elts if isinstance(t, ast.Tuple) else [t])]

    def loop(self, node, loc):
        """contract chosen by WHAT is iterated (not by the position of the loop in the source): the sorted distinct
        iterations -> contract 0; the list of variable names -> contract 1; a concrete tuple / list / range -> unrolled"""
        c, w = self.c, self.w
        sfx = f' rl={self.rl}'
        is_enum = isinstance(node.iter, ast.Call) and ast.unparse(node.iter.func) == 'enumerate'
        its = eval_expr(node.iter.args[0] if is_enum else node.iter, self.glb, loc)
        if isinstance(its, (tuple, list, range, str, dict)) and not any(isinstance(x, (Z, SKey)) for x in its):
            names = self.targets(node)
            for n_, item in enumerate(builtins.list(its)):
                if is_enum:
                    loc[names[0]], loc[names[1]] = n_, item
                elif len(names) == 1:
                    loc[names[0]] = item
                else:
                    for nm_, v_ in zip(names, item):
                        loc[nm_] = v_
                if self.run_stmts(node.body, loc) == 'break':
                    break
            return
        if isinstance(its, SIterList) and not isinstance(its, SSorted):
            c.require('the iterations are traversed as sorted(set(it)) (distinct: every file is written once, in a fixed order)', z3.BoolVal(False))
            raise SX.PathEnd()
        ordinal = 0 if isinstance(its, SSorted) else 1 if isinstance(its, SVarList) else None
        if ordinal is None:
            raise SX.PathAbort(f'loop over {type(its).__name__}: no contract')
        if ordinal == 0:
            names = self.targets(node)
            enumerated = isinstance(node.iter, ast.Call) and ast.unparse(node.iter.func) == 'enumerate'
            # ---- inductive step: arbitrary state, generic iteration value i of the list
            has0, val0 = w.fs.snapshot()
            w.fs.arrays(sfx)
            w.fs.havoc('L0')
            hh, vh = w.fs.snapshot()
            i = c.new_int('iit')
            n0 = len(c.pc)
            c.assume(its.pred(i))
            loc2 = dict(loc)
            if enumerated:
                start = 0
                for kwd in node.iter.keywords:
                    if kwd.arg == 'start':
                        start = eval_expr(kwd.value, self.glb, loc)
                if len(node.iter.args) > 1:
                    start = eval_expr(node.iter.args[1], self.glb, loc)
                loc2[names[0]] = Z(w.rank(i)) + start if not (isinstance(start, int) and start == 0) else Z(w.rank(i))
                loc2[names[1]] = Z(i)
            else:
                loc2[names[0]] = Z(i)
            self.cur_i = i
            nopen = len(w.opened)
            completed = self.run_stmts(node.body, loc2) != 'break'
            c.require('loop 0: body does not break', z3.BoolVal(completed))
            op = w.opened[nopen:]
            c.require("loop 0: the body opens exactly the file of its iteration, in append mode (the file exists afterwards, other files are not created)",
                      z3.BoolVal(len(op) >= 1 and all(z3.eq(z3.simplify(oi), z3.simplify(i)) and om == 'a' for oi, om in op)))
            if self.summary1 is None:
                c.require('loop 0: the body runs the loop over the variables', z3.BoolVal(False))
                raise SX.PathEnd()
            pv, idx_e, hrow_h, vrow_h = self.summary1
            # only file i changed, by exactly the row computed by loop 1 from the arbitrary state
            for s2 in w.fs.has:
                if s2 == sfx:
                    continue
                c.require('loop 0: datasets of other levels / suffixes are not touched', z3.BoolVal(z3.eq(w.fs.has[s2], hh[s2]) and z3.eq(w.fs.val[s2], vh[s2])))
            j = z3.Int('i!o')
            c.require('loop 0: inductive step -- files of other iterations are unchanged',
                      z3.ForAll([j], z3.Implies(j != i, z3.And(z3.Select(w.fs.has[sfx], j) == z3.Select(hh[sfx], j),
                                                               z3.Select(w.fs.val[sfx], j) == z3.Select(vh[sfx], j)))))
            del c.pc[n0:]
            # ---- summary after the loop (distinct i: each file row is rewritten once, from the entry state)
            hf = z3.Array(f'has[{sfx}]!final', I, z3.ArraySort(I, B))
            vf = z3.Array(f'val[{sfx}]!final', I, z3.ArraySort(I, I))
            k = z3.Int('k!f')
            ii = z3.Int('i!f')
            idx_i = z3.substitute(idx_e, (i, ii))
            cond = z3.And(its.pred(ii), pv(k), z3.Not(w.colnone(k)), z3.Not(w.entnone(k, idx_i)))
            h_entry = has0.get(sfx, z3.Array(f'has[{sfx}]', I, z3.ArraySort(I, B)))
            v_entry = val0.get(sfx, z3.Array(f'val[{sfx}]', I, z3.ArraySort(I, I)))
            c.assume(z3.ForAll([ii, k], z3.And(
                z3.Select(z3.Select(hf, ii), k) == z3.If(cond, True, z3.Select(z3.Select(h_entry, ii), k)),
                z3.Select(z3.Select(vf, ii), k) == z3.If(cond, w.ent(k, idx_i), z3.Select(z3.Select(v_entry, ii), k)))))
            for s2 in list(w.fs.has):
                if s2 != sfx:
                    w.fs.has[s2], w.fs.val[s2] = has0.get(s2, w.fs.has[s2]), val0.get(s2, w.fs.val[s2])
            w.fs.has[sfx], w.fs.val[sfx] = hf, vf
            self.summary0 = (its.pred, pv, i, idx_e)
            for n in names + ['fname', 'f', 'key', 'skey']:
                loc.pop(n, None)
            return
        if ordinal == 1:
            vs = its
            i = self.cur_i
            # which position of the columns does the body read?  found by a dry run of the body on a key whose column and entry
            # exist (no path decision is recorded, every effect is undone) -- not by the name of a local variable
            probe_k = c.new_int('probe')
            snap_has, snap_val = w.fs.snapshot()
            nlog, npc, nob, nrd, nop = len(w.fs.log), len(c.pc), len(c.obls), len(w.colreads), len(w.opened)
            real_branch, real_require = c.branch, c.require
            c.branch = lambda cond: not (z3.is_app(cond) and cond.decl().name() in ('colnone', 'entnone'))
            c.require = lambda *a, **k_: None
            try:
                self.run_stmts(node.body, dict(loc, **{self.targets(node)[0]: SKey(probe_k)}))
            except Exception:
                pass
            finally:
                c.branch, c.require = real_branch, real_require
                w.fs.has, w.fs.val = dict(snap_has), dict(snap_val)
                del w.fs.log[nlog:], c.pc[npc:], c.obls[nob:], w.opened[nop:]
            reads = [p_ for k_, p_ in w.colreads[nrd:] if z3.eq(k_, probe_k)]
            del w.colreads[nrd:]
            if not reads or any(not z3.eq(z3.simplify(r_), z3.simplify(reads[0])) for r_ in reads):
                c.require('loop 1: the body reads data[key] at one position, the same for every variable', z3.BoolVal(False))
                raise SX.PathEnd()
            idx = Z(reads[0])
            # ---- inductive step from an arbitrary state, generic key of the list
            w.fs.arrays(sfx)
            entry_h, entry_v = w.fs.snapshot()
            w.fs.havoc('L1')
            hh, vh = w.fs.snapshot()
            k = c.new_int('key')
            n0 = len(c.pc)
            c.assume(vs.pred(k))
            loc2 = dict(loc)
            loc2[self.targets(node)[0]] = SKey(k)
            nlog = len(w.fs.log)
            completed = self.run_stmts(node.body, loc2) != 'break'
            c.require('loop 1: body does not break', z3.BoolVal(completed))
            writes = w.fs.log[nlog:]
            own = all(z3.eq(z3.simplify(wi), z3.simplify(i)) and z3.eq(z3.simplify(wk), z3.simplify(k)) and ws == sfx for _, wi, wk, ws in writes)
            c.require("loop 1: the body writes only the dataset '<key> rl=<rl>' of the file of its iteration", z3.BoolVal(own))
            nm = SName(k, sfx)
            cond = z3.And(z3.Not(w.colnone(k)), z3.Not(w.entnone(k, idx.e)))
            hb, vb = z3.Select(z3.Select(hh[sfx], i), k), z3.Select(z3.Select(vh[sfx], i), k)
            c.require('loop 1: inductive step -- dataset holds data[key][it_index] when that entry exists',
                      z3.Implies(cond, z3.And(w.fs.present(i, nm), w.fs.value(i, nm) == w.ent(k, idx.e))))
            c.require('loop 1: inductive step -- None column / None entry: the dataset is left as it was (skipped)',
                      z3.Implies(z3.Not(cond), z3.And(w.fs.present(i, nm) == hb, w.fs.value(i, nm) == vb)))
            del c.pc[n0:]
            # ---- summary: row i of the entry state updated at every key of the list with an existing entry
            j = z3.Int('k!r')
            hrow = z3.Array(f'hrow!{next(c.fresh)}', I, B)
            vrow = z3.Array(f'vrow!{next(c.fresh)}', I, I)
            condj = z3.And(vs.pred(j), z3.Not(w.colnone(j)), z3.Not(w.entnone(j, idx.e)))
            c.assume(z3.ForAll([j], z3.And(z3.Select(hrow, j) == z3.If(condj, True, z3.Select(z3.Select(entry_h[sfx], i), j)),
                                           z3.Select(vrow, j) == z3.If(condj, w.ent(j, idx.e), z3.Select(z3.Select(entry_v[sfx], i), j)))))
            for s2 in list(w.fs.has):
                w.fs.has[s2], w.fs.val[s2] = entry_h[s2], entry_v[s2]
            w.fs.has[sfx] = z3.Store(entry_h[sfx], i, hrow)
            w.fs.val[sfx] = z3.Store(entry_v[sfx], i, vrow)
            self.summary1 = (vs.pred, idx.e, hrow, vrow)
            return
    summary1 = None


def save_paths(rl, param, label):
    import aurel.reading as Rm
    tree, loops = SX.extract_loops(Rm.save_data)

    def run():
        c = SX.ctx()
        c.timeout_ms = 1500          # feasibility checks: 'unknown' keeps the path (over-approximation, sound)
        w = World(c)
        want = (param['datapath'] if 'datapath' in param else None)

        def datapath_ok(tmpl):
            if 'simulation' in param:
                return tmpl == f"{param['simpath']}{param['simname']}/output-0000/{param['simname']}/all_iterations/it_\x00.hdf5"
            d = want if want.endswith('/') else want + '/'
            return tmpl == f'{d}it_\x00.hdf5'
        glb = make_globals(w, Rm.__dict__, datapath_ok)
        caller_vars = SVarList(lambda k: w.invars(k), w.vars_empty)
        SIterList.world = w
        caller_it = SIterList(lambda i: w.init(i))
        p = dict(param)
        kwargs = {'vars': caller_vars, 'it': caller_it, 'rl': rl}
        loc = {'param': p, 'data': SData(w), 'kwargs': kwargs}
        sfx = f' rl={rl}'
        h0, v0 = w.fs.arrays(sfx)
        other = w.fs.arrays(' rl=77')
        drv = Driver(w, glb, loops, rl)
        drv.run_stmts(tree.body[1:] if isinstance(tree.body[0], ast.Expr) and isinstance(getattr(tree.body[0], 'value', None), ast.Constant) else tree.body, loc)
        if drv.summary0 is None:
            c.require('save_data runs its loop over the iterations', z3.BoolVal(False))
            return
        # ---- ensures (specification written from the property, independent of the code's own predicates)
        i, k = z3.Int('i!e'), z3.Int('k!e')
        has_it = z3.And(w.indata(z3.IntVal(LIT['it'])), z3.Not(w.colnone(z3.IntVal(LIT['it']))))
        V = z3.Or(z3.If(w.vars_empty, w.indata(k), w.invars(k)),
                  z3.And(k == LIT['it'], w.indata(z3.IntVal(LIT['it']))), z3.And(k == LIT['t'], w.indata(z3.IntVal(LIT['t']))))
        idx = z3.If(has_it, w.pos(i), w.rank(i))
        cond = z3.And(w.init(i), V, z3.Not(w.colnone(k)), z3.Not(w.entnone(k, idx)))
        hf, vf = w.fs.has[sfx], w.fs.val[sfx]
        c.require('ensures: every selected (iteration, variable) with an existing entry is stored, with the array that belongs to that iteration in the dictionary',
                  z3.ForAll([i, k], z3.Implies(cond, z3.And(z3.Select(z3.Select(hf, i), k), z3.Select(z3.Select(vf, i), k) == w.ent(k, idx)))))
        c.require('ensures: nothing else is created, deleted or overwritten (other iterations, other variables, None entries)',
                  z3.ForAll([i, k], z3.Implies(z3.Not(cond), z3.And(z3.Select(z3.Select(hf, i), k) == z3.Select(z3.Select(h0, i), k),
                                                                 z3.Select(z3.Select(vf, i), k) == z3.Select(z3.Select(v0, i), k)))))
        c.require('ensures: datasets of other levels are untouched', z3.BoolVal(z3.eq(w.fs.has[' rl=77'], other[0]) and z3.eq(w.fs.val[' rl=77'], other[1])))
        c.require("frame: the caller's vars list, it list, data and param are unchanged",
                  z3.BoolVal(not caller_vars.mutated and kwargs['vars'] is caller_vars and kwargs['it'] is caller_it and p == param))
    return explore(run, max_paths=2000)


def _one_config(args):
    rl, label, param = args
    t0 = time.time()
    try:
        paths = save_paths(rl, param, label)
    except SX.PathAbort as e:
        return (rl, label, 'abort', str(e), 0, time.time() - t0)
    except Exception as e:
        import traceback
        return (rl, label, 'error', f'statement outside the modelled subset: {type(e).__name__}: {e} :: {traceback.format_exc()[-300:]}', 0, time.time() - t0)
    agg = {}
    for res, c in paths:
        for nm, goal, pc in c.obls:
            r = agg.setdefault(nm, dict(valid=0, invalid=[], unknown=[], secs=0.0))
            if r['invalid'] or len(r['unknown']) >= 2:
                continue              # one counter-model per obligation is enough
            if time.time() - t0 > 600:
                r['unknown'].append('not attempted: the time budget of this configuration was used up (an instance that is not proved is never counted as discharged)')
                continue
            v, model, secs = prove(pc, goal, 10000)
            r['secs'] += secs
            (r['invalid'].append(str(model)[:400]) if v == 'invalid' else r['unknown'].append(str(model)) if v == 'unknown'
             else r.__setitem__('valid', r['valid'] + 1))
    return (rl, label, 'ok', agg, len(paths), time.time() - t0)


def native_save_replay(o=None):
    from props import C13
    return C13.native_replay(o)


def save_obligations(R):
    import multiprocessing as mp
    import aurel.reading as Rm
    R.under_contract(Rm.save_data)
    R.trust("requires (save_data): the names in vars are keys of data; the iterations passed are among data['it'] when it is given "
            "(else KeyError / ValueError); h5py contract as in engine/fsmodel.py")
    cfgs = [(rl, label, param) for rl in (0, 10)
            for label, param in (('datapath with slash', {'datapath': '/d/'}), ('datapath without slash', {'datapath': '/d'}),
                                 ('ET-style parameters', {'simulation': 'ET', 'simpath': '/s/', 'simname': 'run'}))]
    with mp.Pool(len(cfgs)) as pool:
        results = pool.map(_one_config, cfgs, chunksize=1)
    for rl, label, st, agg, npaths, secs in results:
        tag = f'reading.save_data[unbounded, rl={rl}, {label}]'
        if st != 'ok':
            R.ob(f'{tag}:{"paths" if st == "abort" else "symbolic-run"}', 'save_data', 'undecided', 'z3', secs, agg)
            continue
        R.paths += npaths
        if not agg:
            R.ob(f'{tag}:generated-obligations', 'save_data', 'undecided', 'z3', 0.0, 'no verification condition generated (vacuity guard)')
        for nm, r in agg.items():
            stt = 'refuted' if r['invalid'] else ('undecided' if r['unknown'] else 'discharged')
            R.ob(f'{tag}:{nm}', 'save_data', stt, 'z3', r['secs'],
                 ('counter-model: ' + r['invalid'][0]) if r['invalid'] else (r['unknown'][0] if r['unknown'] else f"{r['valid']} path instance(s)"),
                 [nm] if r['invalid'] else None, replay=native_save_replay)
