"""E2 verification conditions for the cache machinery of AurelCore (C03, and O2 of C01).

The real statements of cleanup_cache / __getitem__ / freeze_data / load_data are executed on a
symbolic instance: self.data and self.last_accessed are symbolic maps (z3 arrays Key->Bool,
Key->Int), var_importance is an array Key->Real (>= 0), counts / sizes / thresholds are z3
scalars.  Straight-line segments run as compiled from the real AST; every loop is cut out
mechanically (by ordinal) and verified through its sidecar contract:

  cleanup_cache loop 0  `for key, last_time in self.last_accessed.items()`   foreach / filter
  cleanup_cache loop 1  `for key in key_to_remove`                            foreach / delete
  cleanup_cache loop 2  `while total_cache_size >= memory_threshold`          invariant + variant
  cleanup_cache loop 3  inner `for key, last_time in ...items()`              fold (arg-max) invariant

What the extraction drops: nothing is rewritten; f-string formatting of symbolic numbers yields ''
and myprint is a no-op (output is not part of the property).
Abstracted callees (contracts): get_size(x) >= 0 (proved separately on the AST of get_size),
sum(sys.getsizeof(v) ...) >= 0.
Finite-set facts used for the variant (standard, trusted): a map with a present key has
cardinality >= 1; deleting a present key lowers the cardinality by exactly 1.
"""
import ast
import inspect
import textwrap
import time
import z3

from engine import symx as SX
from engine.symx import Z, SDict, Ctx, explore, prove, to_z3, run_block

K = z3.IntSort()


class Poisoned:
    def __repr__(self):
        return '<key_to_remove is not a key here>'


class ImpMap:
    def __init__(self):
        self.arr = z3.Array('importance', K, z3.RealSort())
        self.log = []

    def get(self, k, default=None):
        return Z(z3.Select(self.arr, to_z3(k)))

    def __setitem__(self, k, v):
        self.log.append((k, v))
        self.arr = z3.Store(self.arr, to_z3(k), to_z3(v, real=True))

    def imp(self, k):
        return z3.Select(self.arr, to_z3(k))


class SSet:
    """list of distinct keys described by a predicate (result of a filter loop); `elem(k)` rebuilds the list element that
    belongs to key k (the key itself, or a tuple carrying it)"""

    def __init__(self, pred, elem=None):
        self.pred = pred
        self.elem = elem or (lambda k: Z(k))
        self.nonempty = z3.Bool(f'nonempty!{id(self)}')
        self.wit = z3.Int(f'wit!{id(self)}')
        SX.ctx().assume(z3.Implies(self.nonempty, pred(self.wit)))
        q = z3.Int('q!ne')
        SX.ctx().assume(z3.Implies(z3.Not(self.nonempty), z3.ForAll([q], z3.Not(pred(q)))))

    def __bool__(self):
        return SX.ctx().branch(self.nonempty)

    def any_element(self):
        """an arbitrary element (over-approximates max / min / [0]): every element satisfies the predicate"""
        c = SX.ctx()
        c.require('an element is taken from a non-empty list', self.nonempty)
        w = c.new_int('elem')
        c.assume(self.pred(w))
        return self.elem(w)


class SymSelf:
    def __init__(self, verbose):
        self.data = SDict('data')
        self.last_accessed = SDict('last_accessed', z3.IntSort())
        self.var_importance = ImpMap()
        self.calculation_count = Z.int('count')
        self.clear_cache_every_nbr_calc = Z.int('every')
        self.memory_threshold_inGB = Z.real('thrGB')
        self.param = dict(Nx=Z.int('Nx'), Ny=Z.int('Ny'), Nz=Z.int('Nz'))
        self.verbose = verbose
        self.card = z3.Int('card_la')       # ghost: number of keys in last_accessed
        self.deleted = []                   # ghost: keys deleted from data

    def myprint(self, msg):
        pass

    def __getattr__(self, name):
        """a helper method of the real class that the sidecar contracts do not know (introduced by a refactoring): its real
        body runs on this symbolic instance with the same re-bound globals"""
        import types as _t
        import aurel.core as C
        f = C.AurelCore.__dict__.get(name)
        g = self.__dict__.get('_glb')
        if isinstance(f, _t.FunctionType) and g is not None and not name.startswith('__'):
            nf = _t.FunctionType(f.__code__, g, f.__name__, f.__defaults__, f.__closure__)
            return _t.MethodType(nf, self)
        raise AttributeError(name)


def fresh_nonneg(c, base):
    v = c.new_int(base)
    c.assume(v >= 0)
    return Z(v)


def make_globals(c, real_globals):
    g = dict(real_globals)

    def get_size(obj):
        if isinstance(obj, SX.DVal):
            f = z3.Function('size', K, z3.IntSort())
            e = f(to_z3(obj.k))
            c.assume(e >= 0)
            return Z(e)
        return fresh_nonneg(c, 'total_size')

    def ssum(x, *a):
        return fresh_nonneg(c, 'getsizeof_sum')

    def slen(x):
        if isinstance(x, SSet):
            return fresh_nonneg(c, 'len')
        return len(x)
    import builtins as _b

    def smax(x, *a, **k):
        if isinstance(x, SSet) and not a:
            return x.any_element()
        return _b.max(x, *a, **k)

    def smin(x, *a, **k):
        if isinstance(x, SSet) and not a:
            return x.any_element()
        return _b.min(x, *a, **k)
    def lc(elt_f, cond_f, it):
        """list comprehension: over the age table it is the filter contract (same facts as the filter loop); otherwise as written"""
        if isinstance(it, SX.GenItems):
            s_ = g['__self__']
            if it.d is not s_.last_accessed:
                raise SX.PathAbort('comprehension over a symbolic map other than the age table')
            key = c.new_int('key')
            n0 = len(c.pc)
            c.assume(s_.last_accessed.has(key))
            item = Z(key) if it.keys_only else (Z(key), Z(z3.Select(s_.last_accessed.val, key)))
            nd, nl = len(s_.data.log), len(s_.last_accessed.log)
            taken = bool(cond_f(item))
            e = elt_f(item)
            c.require('filter comprehension: does not modify data / last_accessed', z3.BoolVal(len(s_.data.log) == nd and len(s_.last_accessed.log) == nl))

            def carries(x):
                return z3.eq(x.e, key) if isinstance(x, Z) else (any(carries(y) for y in x) if isinstance(x, (tuple, list)) else False)

            def rebuild(x, q):
                return Z(z3.substitute(x.e, (key, q))) if isinstance(x, Z) else (type(x)(rebuild(y, q) for y in x) if isinstance(x, (tuple, list)) else x)
            c.require('filter comprehension: every element carries the key it was built from', z3.BoolVal(carries(e)))
            if taken:
                c.require('loop 0: a frozen key (importance 0) is never selected for removal', s_.var_importance.imp(key) != 0)
                c.require('loop 0: a selected key was last used more than one calculation ago',
                          s_.calculation_count.e - z3.Select(s_.last_accessed.val, key) > 1)
            del c.pc[n0:]
            sel = z3.Function(f'selected!{next(c.fresh)}', K, z3.BoolSort())
            q = z3.Int('k!s')
            c.assume(z3.ForAll([q], z3.Implies(sel(q), z3.And(s_.last_accessed.has(q), s_.var_importance.imp(q) != 0,
                                                           s_.calculation_count.e - z3.Select(s_.last_accessed.val, q) > 1))))
            return SSet(sel, lambda kq, e=e: rebuild(e, kq))
        if isinstance(it, SSet):
            raise SX.PathAbort('comprehension over a filtered set')
        return [elt_f(x) for x in it if cond_f(x)]
    g.update(get_size=get_size, sum=ssum, len=slen, max=smax, min=smin, __lc__=lc)
    return g


def I1(s):
    k = z3.Int('k!q')
    return z3.ForAll([k], z3.Implies(s.last_accessed.has(k), s.data.has(k)))


def Rel(s, dom0, la0, lav0, imp0, count):
    """relation between the state at entry of cleanup_cache and a later state (loop invariant of the
    while loop and postcondition): only paired deletions of unfrozen entries last used > 1 calculation ago"""
    k = z3.Int('k!r')
    d1, l1 = s.data.dom, s.last_accessed.dom
    return z3.ForAll([k], z3.And(
        z3.Implies(z3.Select(d1, k), z3.Select(dom0, k)),
        z3.Implies(z3.And(z3.Select(dom0, k), z3.Not(z3.Select(d1, k))),
                   z3.And(z3.Select(la0, k), imp0(k) != 0, count - z3.Select(lav0, k) > 1)),
        z3.Select(l1, k) == z3.And(z3.Select(la0, k), z3.Select(d1, k))))


def preconditions(c, s):
    c.assume(s.clear_cache_every_nbr_calc.e >= 1)
    c.assume(s.memory_threshold_inGB.e > 0)
    for n in s.param.values():
        c.assume(n.e >= 1)
    k = z3.Int('k!p')
    c.assume(z3.ForAll([k], s.var_importance.imp(k) >= 0))
    c.assume(I1(s))
    c.assume(s.card >= 0)


def eval_expr(node, glb, loc):
    code = compile(ast.Expression(body=node), '<test>', 'eval')
    return eval(code, glb, loc)


class _Return(Exception):
    """`return` reached at the top level of the function (not inside a loop body)"""


class Driver:
    """Hoare-level driver over the statement list of cleanup_cache."""
    depth = 0

    def __init__(self, c, s, glb, loops, dom0, la0, imp0):
        self.c, self.s, self.glb, self.loops = c, s, glb, loops
        self.dom0, self.la0, self.imp0 = dom0, la0, imp0
        self.lav0 = s.last_accessed.val
        self.count0 = s.calculation_count.e

    def rel(self):
        return Rel(self.s, self.dom0, self.la0, self.lav0, self.imp0, self.count0)

    def frozen_never_deleted(self, k, why):
        self.c.require(f'{why}: deleted key is not frozen', self.s.var_importance.imp(k) != 0)

    def run_stmts(self, stmts, loc):
        """returns False if a `break` left the enclosing loop"""
        i = 0
        seg = []
        for st in stmts:
            if isinstance(st, (ast.For, ast.While, ast.If, ast.Return)):
                if seg:
                    if not run_block(seg, self.glb, loc):
                        return False
                    seg = []
                if isinstance(st, ast.Return):
                    if self.depth:
                        raise SX.PathAbort('return inside a loop body')
                    raise _Return()
                if isinstance(st, ast.If):
                    t = eval_expr(st.test, self.glb, loc)
                    if bool(t):
                        if not self.run_stmts(st.body, loc):
                            return False
                    elif st.orelse:
                        if not self.run_stmts(st.orelse, loc):
                            return False
                else:
                    kind = self.classify(st, loc)
                    self.depth += 1
                    try:
                        self.loop(kind, st, loc)
                    finally:
                        self.depth -= 1
            else:
                seg.append(st)
        if seg:
            if not run_block(seg, self.glb, loc):
                return False
        return True

    # -- which contract applies is decided by WHAT the loop iterates and does, not by its position or its local names
    def classify(self, node, loc):
        if isinstance(node, ast.While):
            return 2
        it = eval_expr(node.iter, self.glb, loc)
        self.cur_iter = it
        if isinstance(it, SSet):
            return 1
        if isinstance(it, SX.GenItems):
            tnames = [n.id for n in ast.walk(node.target) if isinstance(n, ast.Name)]
            key_name = tnames[0]
            # fold (arg-max): some local defined before the loop is re-assigned from the loop key inside the body
            carried = [n.targets[0].id for n in ast.walk(node) if isinstance(n, ast.Assign) and isinstance(n.targets[0], ast.Name)
                       and isinstance(n.value, ast.Name) and n.value.id == key_name and n.targets[0].id in loc]
            if carried:
                self.argmax_name = carried[0]
                # the running maximum: the other pre-existing local assigned in the same block as the arg-max
                self.max_name = None
                for blk in ast.walk(node):
                    if isinstance(blk, ast.If):
                        names_here = [a.targets[0].id for a in blk.body if isinstance(a, ast.Assign) and isinstance(a.targets[0], ast.Name)]
                        if self.argmax_name in names_here:
                            others = [n for n in names_here if n != self.argmax_name and n in loc]
                            if others:
                                self.max_name = others[0]
                if self.max_name is None:
                    raise SX.PathAbort('arg-max loop whose running maximum cannot be identified')
                return 3
            return 0
        raise SX.PathAbort(f'loop over {type(it).__name__}: no contract')

    # -- loop contracts ------------------------------------------------------
    def loop(self, ordinal, node, loc):
        c, s = self.c, self.s
        tnames = [n.id for n in ast.walk(node.target) if isinstance(n, ast.Name)] if isinstance(node, ast.For) else []
        assigned = sorted({n.id for st_ in getattr(node, 'body', []) for n in ast.walk(st_) if isinstance(n, ast.Name) and isinstance(n.ctx, ast.Store)})

        def carries(e, key):
            if isinstance(e, Z):
                return z3.eq(e.e, key)
            if isinstance(e, (tuple, list)):
                return any(carries(x, key) for x in e)
            return False

        def rebuild(e, key, q):
            if isinstance(e, Z):
                return Z(z3.substitute(e.e, (key, q)))
            if isinstance(e, (tuple, list)):
                return type(e)(rebuild(x, key, q) for x in e)
            return e
        if ordinal == 0:
            # filter loop over the age table: the body may only append (an element carrying) the current key to local lists
            key = c.new_int('key')
            n0 = len(c.pc)
            c.assume(s.last_accessed.has(key))
            loc2 = dict(loc)
            loc2[tnames[0]] = Z(key)
            if len(tnames) > 1:
                loc2[tnames[1]] = Z(z3.Select(s.last_accessed.val, key))
            lists = {n: v for n, v in loc.items() if type(v) is list}
            if any(len(v) for v in lists.values()):
                raise SX.PathAbort('filter loop starting from a non-empty list')
            for n, v in lists.items():
                loc2[n] = list(v)
            nd, nl = len(s.data.log), len(s.last_accessed.log)
            completed = self.run_stmts(node.body, loc2)
            c.require('loop 0: body does not break', z3.BoolVal(completed))
            c.require('loop 0: body does not modify data / last_accessed',
                      z3.BoolVal(len(s.data.log) == nd and len(s.last_accessed.log) == nl))
            grown = {n: loc2[n] for n in lists if type(loc2.get(n)) is list and len(loc2[n]) > 0}
            ok_shape = all(len(v) <= 1 and carries(v[0], key) for v in grown.values()) and all(type(loc2.get(n)) is list for n in lists)
            c.require('loop 0: only the current key is appended, at most once', z3.BoolVal(ok_shape))
            if grown:
                # (b) a frozen key is never selected
                c.require('loop 0: a frozen key (importance 0) is never selected for removal',
                          s.var_importance.imp(key) != 0)
                c.require('loop 0: a selected key was last used more than one calculation ago',
                          s.calculation_count.e - z3.Select(s.last_accessed.val, key) > 1)
            # summary: this path fixes whether the generic key is selected; the predicate over all keys is
            # kept abstract (sel) with the facts just proved: sel(k) -> present(k) & importance(k) != 0 & aged(k)
            del c.pc[n0:]
            for n in (grown or lists):
                sel = z3.Function(f'selected!{next(c.fresh)}', K, z3.BoolSort())
                q = z3.Int('k!s')
                c.assume(z3.ForAll([q], z3.Implies(sel(q), z3.And(s.last_accessed.has(q), s.var_importance.imp(q) != 0,
                                                               s.calculation_count.e - z3.Select(s.last_accessed.val, q) > 1))))
                if n in grown:
                    elem = (lambda kq, e=grown[n][0], key=key: rebuild(e, key, kq))
                else:
                    # this path did not append: the shape of the elements is read off the append expression in the source
                    # (a tuple carrying the key at some position; the other components are arbitrary values)
                    elem = None
                    for nd_ in ast.walk(node):
                        ex = None
                        if isinstance(nd_, ast.Call) and isinstance(nd_.func, ast.Attribute) and nd_.func.attr == 'append' \
                                and isinstance(nd_.func.value, ast.Name) and nd_.func.value.id == n and nd_.args:
                            ex = nd_.args[0]
                        if isinstance(nd_, ast.AugAssign) and isinstance(nd_.target, ast.Name) and nd_.target.id == n \
                                and isinstance(nd_.value, ast.List) and len(nd_.value.elts) == 1:
                            ex = nd_.value.elts[0]
                        if isinstance(ex, ast.Tuple):
                            pos = [i_ for i_, e_ in enumerate(ex.elts) if isinstance(e_, ast.Name) and e_.id == tnames[0]]
                            if len(pos) == 1:
                                elem = (lambda kq, ar=len(ex.elts), p_=pos[0]: tuple(Z(kq) if i_ == p_ else Z(z3.Real(f'comp!{next(c.fresh)}')) for i_ in range(ar)))
                loc[n] = SSet(sel, elem)
            for v in assigned + tnames:
                if v not in lists:
                    loc.pop(v, None)
            return
        if ordinal == 1:
            S = self.cur_iter
            key = c.new_int('key')
            n0 = len(c.pc)
            c.assume(S.pred(key))
            loc2 = dict(loc)
            el = S.elem(key)
            if len(tnames) == 1:
                loc2[tnames[0]] = el
            else:
                for nm_, v_ in zip(tnames, el):
                    loc2[nm_] = v_
            d0, l0 = s.data.dom, s.last_accessed.dom
            nd, nl = len(s.data.log), len(s.last_accessed.log)
            completed = self.run_stmts(node.body, loc2)
            c.require('loop 1: body does not break', z3.BoolVal(completed))
            eff_d = s.data.log[nd:]
            eff_l = s.last_accessed.log[nl:]
            ok = (len(eff_d) == 1 and eff_d[0][0] == 'del' and z3.eq(to_z3(eff_d[0][1]), key)
                  and len(eff_l) == 1 and eff_l[0][0] == 'del' and z3.eq(to_z3(eff_l[0][1]), key))
            c.require('loop 1: deletes exactly data[key] and last_accessed[key] (paired deletion)', z3.BoolVal(ok))
            del c.pc[n0:]
            # bulk effect of the foreach over distinct keys
            q = z3.Int('k!d')
            nd_ = z3.Array(f'data.dom!{next(c.fresh)}', K, z3.BoolSort())
            nl_ = z3.Array(f'la.dom!{next(c.fresh)}', K, z3.BoolSort())
            c.assume(z3.ForAll([q], z3.Select(nd_, q) == z3.And(z3.Select(d0, q), z3.Not(S.pred(q)))))
            c.assume(z3.ForAll([q], z3.Select(nl_, q) == z3.And(z3.Select(l0, q), z3.Not(S.pred(q)))))
            s.data.dom, s.last_accessed.dom = nd_, nl_
            ncard = c.new_int('card')
            c.assume(z3.And(ncard >= 0, ncard <= s.card))
            s.card = ncard
            return
        if ordinal == 2:
            # while: invariant I1 & card >= 0; variant card decreases on every non-breaking iteration
            c.require('loop 2 (while): invariant I1 holds on entry', I1(s))
            c.require('loop 2 (while): invariant Rel holds on entry (only paired deletions of unfrozen, aged entries)',
                      self.rel())
            # havoc loop-modified state
            s.data.dom = z3.Array(f'data.dom!{next(c.fresh)}', K, z3.BoolSort())
            s.last_accessed.dom = z3.Array(f'la.dom!{next(c.fresh)}', K, z3.BoolSort())
            s.card = c.new_int('card')
            c.assume(self.rel())
            c.assume(I1(s))
            c.assume(s.card >= 0)
            for v in assigned:
                cur = loc.get(v)
                if isinstance(cur, Z) and not isinstance(cur, KeyOrPoison):
                    # a scalar carried round the loop (sizes, counters): any value of its sort after earlier iterations
                    loc[v] = Z(z3.Real(f'{v}!{next(c.fresh)}') if z3.is_real(cur.e) else z3.Int(f'{v}!{next(c.fresh)}'))
                    if v in ('total_cache_size', 'nbr_keys_removed') or (z3.is_int(cur.e) and z3.is_int_value(z3.simplify(cur.e)) and z3.simplify(cur.e).as_long() >= 0):
                        c.assume(loc[v].e >= 0)
                elif isinstance(cur, (int, float)) and not isinstance(cur, bool):
                    loc[v] = Z(z3.Int(f'{v}!{next(c.fresh)}')) if isinstance(cur, int) else Z(z3.Real(f'{v}!{next(c.fresh)}'))
                    if cur >= 0:
                        c.assume(loc[v].e >= 0)
                elif v in loc:
                    loc[v] = Poisoned()          # lists / keys computed inside the body: not carried
            t = eval_expr(node.test, self.glb, loc)
            if not bool(t):
                return          # loop exits: state satisfies the invariant
            card_before = s.card
            completed = self.run_stmts(node.body, loc)
            if completed:
                c.require('loop 2 (while): invariant I1 preserved by the body', I1(s))
                c.require('loop 2 (while): variant |last_accessed| decreases and stays >= 0 (termination)',
                          z3.And(s.card < card_before, s.card >= 0))
                c.require('loop 2 (while): invariant Rel preserved by the body', self.rel())
                # continue with an arbitrary later exit state (already covered by the havoc above)
                raise SX.PathEnd()
            return
        if ordinal == 3:
            # fold: InvF(ms, ktr): ms >= 0 & (ms > 0 -> present(ktr) & importance(ktr) != 0)
            ms0 = loc[self.max_name]
            c.require('loop 3 (fold): invariant holds initially (maxstrain = 0)', to_z3(ms0, real=True) >= 0)
            ms = z3.Real(f'maxstrain!{next(c.fresh)}')
            ktr = c.new_int('ktr')
            c.assume(ms >= 0)
            c.assume(z3.Implies(ms > 0, z3.And(s.last_accessed.has(ktr), s.var_importance.imp(ktr) != 0,
                                               s.calculation_count.e - z3.Select(s.last_accessed.val, ktr) > 1)))
            # inductive step on a generic present key
            key = c.new_int('key')
            n0 = len(c.pc)
            c.assume(s.last_accessed.has(key))
            loc2 = dict(loc)
            loc2[tnames[0]] = Z(key)
            if len(tnames) > 1:
                loc2[tnames[1]] = Z(z3.Select(s.last_accessed.val, key))
            loc2[self.max_name] = Z(ms)
            loc2[self.argmax_name] = Z(ktr)
            nd, nl = len(s.data.log), len(s.last_accessed.log)
            completed = self.run_stmts(node.body, loc2)
            c.require('loop 3 (fold): body does not break / modify the maps',
                      z3.BoolVal(completed and len(s.data.log) == nd and len(s.last_accessed.log) == nl))
            ms1, k1 = loc2[self.max_name], loc2[self.argmax_name]
            if not isinstance(k1, Z):
                c.require('loop 3 (fold): key_to_remove stays a key', z3.BoolVal(False))
            else:
                c.require('loop 3 (fold): invariant preserved: maxstrain >= 0', to_z3(ms1, real=True) >= 0)
                c.require('loop 3 (fold): invariant preserved: maxstrain > 0 -> key_to_remove present, not frozen, aged',
                          z3.Implies(to_z3(ms1, real=True) > 0,
                                     z3.And(s.last_accessed.has(k1.e), s.var_importance.imp(k1.e) != 0,
                                            s.calculation_count.e - z3.Select(s.last_accessed.val, k1.e) > 1)))
            del c.pc[n0:]
            # after the loop: the invariant, nothing else
            loc[self.max_name] = Z(ms)
            loc[self.argmax_name] = KeyOrPoison(ms, ktr)
            for v in assigned + tnames:
                if v not in (self.max_name, self.argmax_name):
                    loc.pop(v, None)
            return
        raise SX.PathAbort(f'no contract for loop {ordinal}')


class KeyOrPoison(Z):
    """key_to_remove after the fold: a key only if maxstrain > 0"""
    __slots__ = ('ms',)

    def __init__(self, ms, ktr):
        Z.__init__(self, ktr)
        self.ms = ms


def _require_key(v):
    if isinstance(v, KeyOrPoison):
        SX.ctx().require('key_to_remove is used as a key only when maxstrain != 0', v.ms > 0)


_orig_getitem = SDict.__getitem__
_orig_delitem = SDict.__delitem__


def _gi(self, k):
    _require_key(k)
    if isinstance(k, Poisoned):
        SX.ctx().require('key_to_remove is a key when used', z3.BoolVal(False))
        raise SX.Infeasible()
    return _orig_getitem(self, k)


def _di(self, k):
    _require_key(k)
    if isinstance(k, Poisoned):
        SX.ctx().require('key_to_remove is a key when deleted', z3.BoolVal(False))
        raise SX.Infeasible()
    r = _orig_delitem(self, k)
    owner = getattr(self, 'owner', None)
    if owner is not None:
        if self is owner.last_accessed:
            # finite-set facts: the key was present (required above) so |last_accessed| >= 1, and
            # deleting it lowers the cardinality by exactly one
            SX.ctx().assume(owner.card >= 1)
            owner.card = owner.card - 1
        else:
            SX.ctx().require('a deleted cache entry is never frozen (importance != 0)',
                             owner.var_importance.imp(to_z3(k)) != 0)
    return r


SDict.__getitem__ = _gi
SDict.__delitem__ = _di


def cleanup_paths(verbose):
    import aurel.core as C
    tree, loops = SX.extract_loops(C.AurelCore.cleanup_cache)
    from props.readvc import Rewriter
    tree = ast.fix_missing_locations(Rewriter().visit(tree))          # comprehensions -> helper calls (mechanical)
    loops = [n for n in ast.walk(tree) if isinstance(n, (ast.For, ast.While))]
    results = []

    def run():
        c = SX.ctx()
        c.timeout_ms = 10000
        s = SymSelf(verbose)
        s.data.owner = s
        s.last_accessed.owner = s
        preconditions(c, s)
        dom0, la0 = s.data.dom, s.last_accessed.dom
        arr0 = s.var_importance.arr
        imp0 = lambda k: z3.Select(arr0, k)
        glb = make_globals(c, C.__dict__)
        glb['__self__'] = s
        s._glb = glb
        drv = Driver(c, s, glb, loops, dom0, la0, imp0)
        loc = {'self': s}
        try:
            drv.run_stmts(tree.body[1:] if isinstance(tree.body[0], ast.Expr) else tree.body, loc)
        except _Return:
            pass
        # postconditions (also at an early return)
        k = z3.Int('k!post')
        c.require('post: age table describes only cached entries (last_accessed keys subset of data keys)', I1(s))
        c.require('post: frozen entries present before are present after',
                  z3.ForAll([k], z3.Implies(z3.And(z3.Select(dom0, k), imp0(k) == 0), s.data.has(k))))
        c.require('post: clean-up only removes entries (never adds keys)',
                  z3.ForAll([k], z3.Implies(s.data.has(k), z3.Select(dom0, k))))
        c.require('post: Rel -- only paired deletions, of unfrozen entries last used more than one calculation ago',
                  drv.rel())
        c.require('post: no cached value is assigned or altered (only del)',
                  z3.BoolVal(all(e[0] == 'del' for e in s.data.log)))
        c.require('post: importance table untouched', z3.BoolVal(not s.var_importance.log))
        return s
    return explore(run, max_paths=400)


def discharge(R, fn_name, paths, prefix, backend='z3'):
    names = {}
    t0 = time.time()
    for res, c in paths:
        for name, goal, pc in c.obls:
            v, model, secs = prove(pc, goal, timeout_ms=20000)
            rec = names.setdefault(name, dict(valid=0, invalid=[], unknown=[], secs=0.0))
            rec['secs'] += secs
            if v == 'valid':
                rec['valid'] += 1
            elif v == 'invalid':
                rec['invalid'].append(str(model)[:500])
            else:
                rec['unknown'].append(str(model))
    for name, rec in names.items():
        if rec['invalid']:
            R.ob(f'{prefix}:{name}', fn_name, 'refuted', backend, rec['secs'], 'counter-model: ' + rec['invalid'][0], [name],
                 replay=native_history_replay)
        elif rec['unknown']:
            R.ob(f'{prefix}:{name}', fn_name, 'undecided', backend, rec['secs'], rec['unknown'][0])
        else:
            R.ob(f'{prefix}:{name}', fn_name, 'discharged', backend, rec['secs'], f'{rec["valid"]} path instance(s)')
    return len(paths)


class _Opaque:
    def __init__(self, name):
        self.name = name

    def __repr__(self):
        return f'<{self.name}>'


def cleanup_bounded_paths(verbose, nkeys, in_age_table):
    """the REAL cleanup_cache (code object, not cut up) on a cache with `nkeys` concrete keys and symbolic ages, sizes,
    importances and settings: every path; shape-agnostic (no assumption on how the function is written)."""
    import types
    import aurel.core as C
    real = C.AurelCore.cleanup_cache
    keys = [f'q{n}' for n in range(nkeys)]

    def run():
        c = SX.ctx()
        c.timeout_ms = 5000
        sizes = {k: fresh_nonneg(c, f'size_{k}') for k in keys}
        budget = [0]

        def get_size(obj):
            budget[0] += 1
            if budget[0] > 60:
                raise SX.PathAbort('more than 60 size queries on a 3-entry cache: the clean-up does not terminate')
            if isinstance(obj, _Opaque):
                return sizes[obj.name]
            return fresh_nonneg(c, 'total_size')

        class Sys:
            def getsizeof(self, x):
                return fresh_nonneg(c, 'getsizeof')

            def __getattr__(self, n):
                import sys
                return getattr(sys, n)
        g = dict(real.__globals__)
        g.update(get_size=get_size, sys=Sys())
        from engine.e1 import rebind_class
        Reb = rebind_class(C.AurelCore, g)          # every method of the real class with the same re-bound globals
        fn = Reb.__dict__[real.__name__]
        s = object.__new__(Reb)
        s.data = {k: _Opaque(k) for k in keys}
        s.last_accessed = {k: Z(c.new_int(f'last_{k}')) for k, inn in zip(keys, in_age_table) if inn}
        s.var_importance = {}
        imp = {}
        for k in keys:
            v = z3.Real(f'imp_{k}')
            c.assume(v >= 0)
            imp[k] = v
            s.var_importance[k] = Z(v)
        s.calculation_count = Z(z3.Int('count'))
        s.clear_cache_every_nbr_calc = Z(z3.Int('every'))
        s.memory_threshold_inGB = Z(z3.Real('thrGB'))
        c.assume(s.clear_cache_every_nbr_calc.e >= 1)
        c.assume(s.memory_threshold_inGB.e > 0)
        s.param = {}
        for a in 'xyz':
            n = z3.Int('N' + a)
            c.assume(n >= 1)
            s.param['N' + a] = Z(n)
        s.verbose = verbose
        s.myprint = lambda msg: None
        last0 = {k: v.e for k, v in s.last_accessed.items()}
        try:
            fn(s)
        except (SX.PathAbort, SX.Infeasible, SX.PathEnd):
            raise
        except Exception as e:
            c.require(f'clean-up does not raise ({type(e).__name__}: {str(e)[:80]})', z3.BoolVal(False))
            return
        c.require('clean-up does not raise', z3.BoolVal(True))
        removed = [k for k in keys if k not in s.data]
        c.require('only entries are removed: no key is added, no value replaced',
                  z3.BoolVal(set(s.data) <= set(keys) and all(isinstance(v, _Opaque) and v.name == k for k, v in s.data.items())))
        c.require('age table afterwards describes only cached entries, and deletions are paired',
                  z3.BoolVal(set(s.last_accessed) <= set(s.data) and all((k in s.last_accessed) == (k in last0) for k in s.data)))
        for k in removed:
            if k not in last0:
                c.require('an entry that was never accessed through the cache (not in the age table) is not removed', z3.BoolVal(False))
                continue
            c.require('a removed entry is not frozen (importance != 0)', imp[k] != 0)
            c.require('a removed entry was last used more than one calculation ago', s.calculation_count.e - last0[k] > 1)
        c.require('importance table untouched', z3.BoolVal(all(isinstance(s.var_importance.get(k), Z) and z3.eq(s.var_importance[k].e, imp[k]) for k in keys)
                                                           and set(s.var_importance) == set(keys)))
    return explore(run, max_paths=3000)


def cleanup_bounded(R, why):
    """fall-back when the loop contracts do not match the present shape of cleanup_cache"""
    import itertools
    R.notes.append(f'cleanup_cache: the loop contracts (unbounded proof) could not be matched to the current source ({why}); '
                   'bounded all-paths check of the real function on caches of <= 3 entries instead')
    R.bounded.append(dict(function='aurel.core.AurelCore.cleanup_cache', bound='caches of 0..3 entries x every subset in the age table x verbose on/off; ages, sizes, importances, settings symbolic'))
    agg = {}
    t0 = time.time()
    npaths = 0
    for verbose in (True, False):
        for n in range(0, 4):
            for inn in itertools.product((True, False), repeat=n):
                try:
                    paths = cleanup_bounded_paths(verbose, n, inn)
                except SX.PathAbort as e:
                    agg.setdefault('paths', dict(valid=0, invalid=[], unknown=[]))['unknown'].append(f'{n} keys {inn}: {e}')
                    continue
                npaths += len(paths)
                for res, c in paths:
                    for name, goal, pc in c.obls:
                        key = name.split(' (')[0] if name.startswith('clean-up does not raise') else name
                        rec = agg.setdefault(key, dict(valid=0, invalid=[], unknown=[]))
                        if rec['invalid']:
                            continue
                        v, model, secs = prove(pc, goal, timeout_ms=10000)
                        if v == 'valid':
                            rec['valid'] += 1
                        elif v == 'invalid':
                            rec['invalid'].append(f'{name}; cache of {n} entries, in age table {inn}, verbose={verbose}: {str(model)[:300]}')
                        else:
                            rec['unknown'].append(str(model))
    R.paths += npaths
    secs = time.time() - t0
    for name, rec in agg.items():
        st = 'refuted' if rec['invalid'] else ('undecided' if rec['unknown'] else 'bounded-ok')
        R.ob(f'core.cleanup_cache[bounded, all paths]:{name}', 'cleanup_cache', st, 'z3-paths', secs / max(len(agg), 1),
             rec['invalid'][0] if rec['invalid'] else (rec['unknown'][0] if rec['unknown'] else f'{rec["valid"]} path instance(s)'),
             [name] if rec['invalid'] else None, bounded='caches of <= 3 entries', replay=native_history_replay)


def cleanup_obligations(R):
    import aurel.core as C
    R.under_contract(C.AurelCore.cleanup_cache)
    mismatch = None
    results = []
    for verbose in (True, False):
        t0 = time.time()
        try:
            paths = cleanup_paths(verbose)
        except SX.PathAbort as e:
            mismatch = f'verbose={verbose}: {e}'
            break
        except (KeyError, TypeError, AttributeError, IndexError, NameError, SyntaxError, ValueError) as e:
            # raised by the contract driver itself (a local it expects is not there, a statement form it does not execute):
            # a limit of the sidecar contracts, never a verdict on the code
            mismatch = f'verbose={verbose}: {type(e).__name__}: {e}'
            break
        results.append((verbose, paths))
    if mismatch is not None:
        cleanup_bounded(R, mismatch)
        return
    for verbose, paths in results:
        R.paths += len(paths)
        discharge(R, 'cleanup_cache', paths, f'core.cleanup_cache[verbose={verbose}]')


# ---------------------------------------------------------------------------
def getitem_paths(argcount):
    import aurel.core as C

    class Func:
        class __code__:
            co_argcount = argcount

        def __init__(self, s, c, key):
            self.s, self.c, self.key = s, c, key

        def __call__(self):
            # contract of a quantity method: nested requests may add entries and evict unfrozen ones;
            # they preserve I1 and frozen entries, never decrease the counter (induction on call depth)
            s, c = self.s, self.c
            q = z3.Int('k!n')
            d1 = z3.Array(f'data.dom!{next(c.fresh)}', K, z3.BoolSort())
            l1 = z3.Array(f'la.dom!{next(c.fresh)}', K, z3.BoolSort())
            lv = z3.Array(f'la.val!{next(c.fresh)}', K, z3.IntSort())
            cnt = c.new_int('count')
            c.assume(cnt >= s.calculation_count.e)
            c.assume(z3.ForAll([q], z3.Implies(z3.Select(l1, q), z3.Select(d1, q))))
            c.assume(z3.ForAll([q], z3.Implies(z3.And(z3.Select(s.dom0, q), s.imp0(q) == 0), z3.Select(d1, q))))
            s.data.dom, s.last_accessed.dom, s.last_accessed.val = d1, l1, lv
            s.calculation_count = Z(cnt)
            return Z(z3.Int('spec_value'))

    def run():
        c = SX.ctx()
        s = SymSelf(False)
        s.data = SDict('data', z3.IntSort())
        s.data.owner = s
        s.last_accessed.owner = s
        preconditions(c, s)
        s.dom0, arr0 = s.data.dom, s.var_importance.arr
        val0 = s.data.val
        s.imp0 = lambda k: z3.Select(arr0, k)
        key = z3.Int('key')
        f = Func(s, c, key)
        s.__dict__['requested'] = f

        def cleanup():
            # contract of cleanup_cache (proved above): only deletions, of unfrozen entries last used more
            # than one calculation ago; I1 preserved
            q = z3.Int('k!c')
            d1 = z3.Array(f'data.dom!{next(c.fresh)}', K, z3.BoolSort())
            l1 = z3.Array(f'la.dom!{next(c.fresh)}', K, z3.BoolSort())
            d0, l0 = s.data.dom, s.last_accessed.dom
            lv = s.last_accessed.val
            cnt = s.calculation_count.e
            arr = s.var_importance.arr
            s.data.dom, s.last_accessed.dom = d1, l1
            c.assume(Rel(s, d0, l0, lv, lambda k: z3.Select(arr, k), cnt))
        s.cleanup_cache = cleanup
        glb = dict(C.__dict__)
        glb['getattr'] = lambda obj, name: f
        glb['descriptions'] = type('D', (), {'__getitem__': lambda self, k: ''})()
        import types
        real = C.AurelCore.__getitem__
        fn = types.FunctionType(real.__code__, glb, real.__name__, real.__defaults__, real.__closure__)
        hit = s.data.has(key)
        res = fn(s, Z(key))
        k = z3.Int('k!g')
        if res is f:
            c.require('function with arguments: returned uncalled, cache untouched',
                      z3.BoolVal(not s.data.log and not s.last_accessed.log))
            return
        c.require('I1 preserved (age table subset of cache)', I1(s))
        c.require('frozen entries survive the request',
                  z3.ForAll([k], z3.Implies(z3.And(z3.Select(s.dom0, k), s.imp0(k) == 0), s.data.has(k))))
        c.require('hit: the cached object itself is returned; miss: exactly func() is stored and returned',
                  z3.If(hit, to_z3(res) == z3.Select(val0, key), to_z3(res) == z3.Int('spec_value')))
        c.require('the requested key is in the cache and in the age table on return',
                  z3.And(s.data.has(key), s.last_accessed.has(key)))
        c.require('the only value ever assigned into the cache is func() under the requested key',
                  z3.BoolVal(all(e[0] == 'del' or (e[0] == 'set' and z3.eq(to_z3(e[1]), key)) for e in s.data.log)))
    return explore(run)


def getitem_obligations(R):
    import aurel.core as C
    R.under_contract(C.AurelCore.__getitem__)
    for argcount in (1, 2, 3):
        t0 = time.time()
        try:
            paths = getitem_paths(argcount)
        except SX.PathAbort as e:
            R.ob(f'core.__getitem__[co_argcount={argcount}]:paths', '__getitem__', 'undecided', 'z3', time.time() - t0, str(e))
            continue
        R.paths += len(paths)
        discharge(R, '__getitem__', paths, f'core.__getitem__[co_argcount={argcount}]')


class GK(Z):
    """generic key of a foreach loop over a symbolic map: stands for EVERY key of the iterated domain at once
    (vectorised execution of the body).  A map write at index GK is the bulk write
    m := lambda j. If(dom0[j], v[k -> j], m[j]).  Sound when the body (1) writes maps only at its own key,
    (2) reads written maps only at its own key, (3) does not branch on the key, (4) carries no scalar state from one
    iteration to the next and (5) does not leave the loop early -- each is checked, else the path is undecided."""

    def __init__(self, e, dom0):
        Z.__init__(self, e)
        self.dom0 = dom0

    def __hash__(self):
        return 7


class Foreach:
    """iteration protocol: yields one GK (or (GK, column)) and checks that the loop ran to completion"""
    active = []

    def __init__(self, sd, mode, dom=None):
        self.sd, self.mode = sd, mode
        self.dom = sd.dom if dom is None else dom     # the iterated set of keys (a key view, or a set expression over key views)

    @staticmethod
    def _dom_of(o):
        if isinstance(o, Foreach):
            if o.mode != 'keys':
                raise SX.PathAbort('set operation on an items view')
            return o.dom
        if isinstance(o, SDict):
            return o.dom
        raise SX.PathAbort(f'set operation between a symbolic key view and {type(o).__name__}')

    def _setop(self, other, f):
        if self.mode != 'keys':
            raise SX.PathAbort('set operation on an items view')
        a, b = self.dom, Foreach._dom_of(other)
        j = z3.Int('j!set')
        return Foreach(self.sd, 'keys', z3.Lambda([j], f(z3.Select(a, j), z3.Select(b, j))))

    def __sub__(self, other):
        return self._setop(other, lambda x, y: z3.And(x, z3.Not(y)))

    def __and__(self, other):
        return self._setop(other, lambda x, y: z3.And(x, y))

    def __or__(self, other):
        return self._setop(other, lambda x, y: z3.Or(x, y))

    def __iter__(self):
        c = SX.ctx()
        k = c.new_int('k!each')
        gk = GK(k, self.dom)
        c.assume(z3.Select(self.dom, k))          # the generic key is one of the iterated set
        npc = len(c.pc)
        Foreach.active.append(gk)
        done = False
        try:
            yield (gk, Column(self.sd, gk)) if self.mode == 'items' else gk
            done = True
        finally:
            Foreach.active.remove(gk)
            if not done:
                raise SX.PathAbort('foreach loop left early (break / return / exception) -- not vectorisable')
            for cond in c.pc[npc:]:
                if any(z3.eq(v, k) for v in _vars(cond)):
                    raise SX.PathAbort(f'foreach body branches on its key: {cond}')

    def __len__(self):
        raise SX.PathAbort('len() of a symbolic key view')


def _vars(e):
    out, todo, seen = [], [e], set()
    while todo:
        x = todo.pop()
        if x.get_id() in seen:
            continue
        seen.add(x.get_id())
        if z3.is_const(x) and x.decl().kind() == z3.Z3_OP_UNINTERPRETED:
            out.append(x)
        todo.extend(x.children())
    return out


class Column:
    """values[...] of the generic key: entry(k, i)"""
    F = z3.Function('entry', K, z3.IntSort(), z3.IntSort())

    def __init__(self, sd, gk):
        self.sd, self.gk = sd, gk

    def __getitem__(self, i):
        return Z(Column.F(self.gk.e, to_z3(i)))


def _bulk(arr, gk, v, sort_real=False):
    j = z3.Int('j!bulk')
    vj = z3.substitute(to_z3(v, real=True) if sort_real else to_z3(v), (gk.e, j))
    return z3.Lambda([j], z3.If(z3.Select(gk.dom0, j), vj, z3.Select(arr, j)))


class FDict(SDict):
    """SDict whose key views can be iterated by the vectorised foreach rule"""

    def keys(self):
        return Foreach(self, 'keys')

    def items(self):
        return Foreach(self, 'items')

    def __iter__(self):
        return iter(Foreach(self, 'keys'))

    column_valued = False

    def __getitem__(self, k):
        for g in Foreach.active:
            if not (isinstance(k, GK) and k is g) and self.log:
                raise SX.PathAbort('foreach body reads a written map at a foreign key')
        if self.column_valued and isinstance(k, GK):
            SX.ctx().require(f'{self.name}[key]: key present (no KeyError)', self.has(k))
            return Column(self, k)
        return SDict.__getitem__(self, k)

    def __setitem__(self, k, v):
        if isinstance(k, GK):
            self.log.append(('bulk-set', k, v))
            j = z3.Int('j!bulk')
            self.dom = z3.Lambda([j], z3.Or(z3.Select(k.dom0, j), z3.Select(self.dom, j)))
            if self.val is not None:
                self.val = _bulk(self.val, k, v)
            return
        if Foreach.active:
            raise SX.PathAbort('foreach body writes a map at a foreign key')
        SDict.__setitem__(self, k, v)

    def __delitem__(self, k):
        if Foreach.active or isinstance(k, GK):
            raise SX.PathAbort('deletion inside a foreach loop')
        SDict.__delitem__(self, k)

    def update(self, other):
        for k, v in other.items():
            self[k] = v


class FImp(ImpMap):
    def __setitem__(self, k, v):
        if isinstance(k, GK):
            self.log.append((k, v))
            self.arr = _bulk(self.arr, k, v, sort_real=True)
            return
        if Foreach.active:
            raise SX.PathAbort('foreach body writes the importance map at a foreign key')
        ImpMap.__setitem__(self, k, v)

    def get(self, k, default=None):
        if Foreach.active and not isinstance(k, GK) and self.log:
            raise SX.PathAbort('foreach body reads the written importance map at a foreign key')
        return ImpMap.get(self, k, default)

    def update(self, other=(), **kw):
        items = other.items() if hasattr(other, 'items') else other
        for k, v in items:
            self[k] = v


class FSelf:
    """contract-level `self` for freeze_data / load_data: scalar attributes are frozen (no cross-iteration state)"""

    def __init__(self, freeze_contract):
        object.__setattr__(self, 'data', FDict('data', z3.IntSort()))
        object.__setattr__(self, 'last_accessed', FDict('last_accessed', z3.IntSort()))
        object.__setattr__(self, 'var_importance', FImp())
        object.__setattr__(self, '_freeze_contract', freeze_contract)
        object.__setattr__(self, 'calls', [])

    def __setattr__(self, n, v):
        raise SX.PathAbort(f'self.{n} assigned by a function whose contract says it only touches data / importance')

    def freeze_data(self):
        # callee by contract: importance := 0 on every key currently in data, nothing else
        self.calls.append('freeze_data')
        j = z3.Int('j!fz')
        imp = self.var_importance
        imp.arr = z3.Lambda([j], z3.If(z3.Select(self.data.dom, j), z3.RealVal(0), z3.Select(imp.arr, j)))
        imp.log.append(('freeze', None))

    def myprint(self, msg):
        pass


def _carried_locals(func):
    """names assigned inside a loop body and used outside it (condition 4 of the foreach rule)"""
    tree, loops = SX.extract_loops(func)
    bad = []
    for lp in loops:
        inside = {id(n) for n in ast.walk(lp)}
        targets = {n.id for n in ast.walk(lp.target) if isinstance(n, ast.Name)} if isinstance(lp, ast.For) else set()
        assigned = {n.id for b in lp.body for n in ast.walk(b) if isinstance(n, ast.Name) and isinstance(n.ctx, ast.Store)} - targets
        aug = {n.target.id for b in lp.body for n in ast.walk(b) if isinstance(n, ast.AugAssign) and isinstance(n.target, ast.Name)}
        used_outside = {n.id for n in ast.walk(tree) if isinstance(n, ast.Name) and isinstance(n.ctx, ast.Load) and id(n) not in inside}
        bad += sorted((assigned & used_outside) | aug)
    return bad


def freeze_obligations(R):
    """freeze_data / load_data against their contracts, executing the REAL code objects on a symbolic cache in which
    a loop (or comprehension, or dict.fromkeys / update) over a map runs once for a generic key standing for every key
    of that map (vectorised foreach rule, conditions checked).  Shape-agnostic: no pattern is matched on the source.
      freeze_data : ensures  forall j. j in data  -> importance'[j] == 0
                             forall j. j not in data -> importance'[j] == importance[j];  data, last_accessed unchanged
      load_data   : ensures  forall j. j in sim_data -> j in data' and data'[j] == sim_data[j][iteration]
                             forall j. j in data' <-> j in data or j in sim_data;  other entries of data unchanged
                             forall j. j in data' -> importance'[j] == 0 (everything frozen); the rest unchanged"""
    import types
    import aurel.core as C
    for name in ('freeze_data', 'load_data'):
        real = getattr(C.AurelCore, name)
        R.under_contract(real)
        t0 = time.time()
        carried = _carried_locals(real)

        def run(name=name, real=real):
            c = SX.ctx()
            if carried:
                raise SX.PathAbort(f'loop-carried local(s) {carried}: foreach rule not applicable')
            s = FSelf(None)
            dom0, val0, imp0, la0 = s.data.dom, s.data.val, s.var_importance.arr, s.last_accessed.dom
            j = z3.Int('j!post')
            fn = types.FunctionType(real.__code__, dict(real.__globals__), real.__name__, real.__defaults__, real.__closure__)
            if name == 'freeze_data':
                fn(s)
                imp1 = s.var_importance.arr
                c.require('every key in data gets importance 0', z3.ForAll([j], z3.Implies(z3.Select(dom0, j), z3.Select(imp1, j) == 0)))
                c.require('importance of keys not in data is unchanged', z3.ForAll([j], z3.Implies(z3.Not(z3.Select(dom0, j)), z3.Select(imp1, j) == z3.Select(imp0, j))))
                c.require('data and the age table are not written', z3.BoolVal(not s.data.log and not s.last_accessed.log))
            else:
                sim = FDict('sim_data')
                sim.column_valued = True
                it = Z(c.new_int('iteration'))
                fn(s, sim, it)
                d1, v1, imp1 = s.data.dom, s.data.val, s.var_importance.arr
                ent = Column.F(j, it.e)
                c.require('every key of sim_data is stored with the entry of the requested iteration',
                          z3.ForAll([j], z3.Implies(z3.Select(sim.dom, j), z3.And(z3.Select(d1, j), z3.Select(v1, j) == ent))))
                c.require('data afterwards = data before + keys of sim_data; other entries unchanged',
                          z3.ForAll([j], z3.And(z3.Select(d1, j) == z3.Or(z3.Select(dom0, j), z3.Select(sim.dom, j)),
                                                z3.Implies(z3.And(z3.Select(dom0, j), z3.Not(z3.Select(sim.dom, j))), z3.Select(v1, j) == z3.Select(val0, j)))))
                c.require('everything in data is frozen afterwards', z3.ForAll([j], z3.Implies(z3.Select(d1, j), z3.Select(imp1, j) == 0)))
                c.require('importance of absent keys unchanged', z3.ForAll([j], z3.Implies(z3.Not(z3.Select(d1, j)), z3.Select(imp1, j) == z3.Select(imp0, j))))
                c.require('the age table and sim_data are not written', z3.BoolVal(not s.last_accessed.log and not sim.log))
        try:
            paths = explore(run)
        except SX.PathAbort as e:
            R.ob(f'core.{name}:paths', name, 'undecided', 'z3', time.time() - t0, str(e))
            continue
        R.paths += len(paths)
        discharge(R, name, paths, f'core.{name}[vectorised foreach]')


def get_size_obligations(R):
    """get_size(x) >= 0.
    (1) structural induction when every return expression is recognisably nbytes / getsizeof / a sum of recursive
        calls (as a `sum(...)` of calls or as an accumulator `t = 0; for ..: t += <calls>; return t`): all containers.
    (2) otherwise (unrecognised shape): the real function runs with the recursive call, nbytes and getsizeof replaced
        by the induction hypothesis (fresh symbolic values >= 0) on lists / tuples / dicts of 0..3 entries: bounded in
        the container length, reported as bounded."""
    import aurel.utils.memory as M
    R.under_contract(M.get_size)
    tree, _ = SX.extract_loops(M.get_size)
    t0 = time.time()
    rets = [n for n in ast.walk(tree) if isinstance(n, ast.Return)]

    def only_recursive_calls(expr):
        calls = [c for c in ast.walk(expr) if isinstance(c, ast.Call)]
        others = [n for n in ast.walk(expr) if not isinstance(n, (ast.Call, ast.BinOp, ast.Add, ast.Name, ast.Load, ast.expr_context))]
        return bool(calls) and all(ast.unparse(c.func) == 'get_size' for c in calls) and not others

    def accumulator_ok(name):
        """name is initialised to 0 and only ever changed by `name += <sum of recursive calls>`"""
        ok_init = False
        for n in ast.walk(tree):
            if isinstance(n, ast.Assign) and any(isinstance(t, ast.Name) and t.id == name for t in n.targets):
                if isinstance(n.value, ast.Constant) and n.value.value == 0:
                    ok_init = True
                else:
                    return False
            if isinstance(n, ast.AugAssign) and isinstance(n.target, ast.Name) and n.target.id == name:
                if not (isinstance(n.op, ast.Add) and only_recursive_calls(n.value)):
                    return False
        return ok_init
    bad = []
    for r in rets:
        sx = ast.unparse(r.value)
        ok = (sx == 'obj.nbytes' or sx == 'sys.getsizeof(obj)'
              or (isinstance(r.value, ast.Call) and ast.unparse(r.value.func) == 'sum' and len(r.value.args) == 1
                  and isinstance(r.value.args[0], (ast.GeneratorExp, ast.ListComp)) and only_recursive_calls(r.value.args[0].elt))
              or (isinstance(r.value, ast.Name) and accumulator_ok(r.value.id)))
        if not ok:
            bad.append(sx)
    R.trust('ndarray.nbytes >= 0 and sys.getsizeof(x) >= 0 (CPython / numpy)')
    if rets and not bad:
        R.ob('memory.get_size:non-negative (structural induction over the return expressions)', 'get_size',
             'discharged', 'ast', time.time() - t0, f'{len(rets)} return expressions: nbytes / getsizeof / sums of recursive calls')
        return
    # (2) semantic fall-back with the induction hypothesis as stubs
    import types
    import numpy as np
    fails = []
    n = 0

    def run_one(obj):
        def body():
            c = SX.ctx()

            def ih(x):
                return fresh_nonneg(c, 'ih')

            class Sys:
                def getsizeof(self, x):
                    return fresh_nonneg(c, 'getsizeof')
            g = dict(M.__dict__)
            g.update(get_size=ih, sys=Sys())
            fn = types.FunctionType(M.get_size.__code__, g, 'get_size', M.get_size.__defaults__, M.get_size.__closure__)
            res = fn(obj)
            c.require('result >= 0', to_z3(res, real=True) >= 0)
        return explore(body)

    class Arr(np.ndarray):
        pass
    objs = [np.zeros(3), 5, 'abc', None]
    for ln in range(4):
        objs += [[object()] * ln, tuple([object()] * ln), {f'k{i}': object() for i in range(ln)}]
    for obj in objs:
        n += 1
        try:
            for res, c in run_one(obj):
                for nm, goal, pc in c.obls:
                    v, model, secs = prove(pc, goal)
                    if v != 'valid':
                        fails.append(f'{type(obj).__name__} of {len(obj) if hasattr(obj, "__len__") else 1}: {v} {model}')
        except Exception as e:
            fails.append(f'{type(obj).__name__}: {type(e).__name__}: {e}')
    R.bounded.append(dict(function='aurel.utils.memory.get_size', bound='return shapes not recognised for the structural induction: containers of 0..3 entries with the induction hypothesis for their contents'))
    R.ob('memory.get_size:non-negative (induction hypothesis for contents; containers of 0..3 entries)', 'get_size',
         'refuted' if fails else 'bounded-ok', 'z3', time.time() - t0, '; '.join(fails[:3]) or f'{n} object kinds; unrecognised return expressions: {bad}',
         fails[:3] or None, bounded='container length <= 3')


def native_history_replay(o=None, nhist=150, length=40, seed=0):
    """replay hook for every cache obligation: the unmodified AurelCore on a 6^3 grid, frozen
    inputs, aggressive clean-up settings, random request histories; the invariants of C03 are
    checked after every single request.  -> (found, text)"""
    import random
    import numpy as np
    import aurel
    rng = random.Random(seed)
    par = dict(Nx=6, Ny=6, Nz=6, xmin=0., ymin=0., zmin=0., dx=0.5, dy=0.5, dz=0.5)
    fd = aurel.FiniteDifference(par, fd_order=2, verbose=False)
    cheap = ['gammaup3', 'gammadet', 'Ktrace', 'Kup3', 'Adown3', 'betadown3', 'betamag', 'gdown4', 'gup4', 'gdet',
             'nup4', 'ndown4', 'gxx', 'kxy', 'betax', 'rho', 'rho0', 'eps', 'enthalpy', 'uup4', 'udown4', 'hdown4',
             'psi_bssnok', 'gammadown3_bssnok', 's_Gamma_udd3', 'Hamiltonian', 'Tdown4', 'rho_n', 'alpha', 'gammadown3']
    for h in range(nhist):
        every = rng.choice([1, 1, 2, 3])
        thr = rng.choice([1e-12, 1e-6, 4])
        rel = aurel.AurelCore(fd, verbose=False, clear_cache_every_nbr_calc=every, memory_threshold_inGB=thr)
        x = fd.x
        inputs = dict(gammadown3=np.array([[1 + x * x, 0.1 * x, 0 * x], [0.1 * x, 1 + 0 * x, 0 * x], [0 * x, 0 * x, 2 + x]]),
                      Kdown3=np.array([[0.1 * x, 0 * x, 0 * x], [0 * x, 0.2 + 0 * x, 0 * x], [0 * x, 0 * x, 0.3 * x]]),
                      alpha=1 + 0.1 * x, betaup3=np.array([0.1 * x, 0 * x, 0.2 + 0 * x]),
                      user_scalar_field=np.sin(x))        # a user-supplied field whose name is not in the variable catalogue
        for k, v in inputs.items():
            rel.data[k] = v
        if rng.random() < 0.5:
            # inputs (and things derived from them) read through rel[...] BEFORE the freeze: they then have an age entry
            # (no clean-up event before the freeze: nothing is frozen yet, an eviction there would be legitimate)
            keep = rel.clear_cache_every_nbr_calc, rel.memory_threshold_inGB
            rel.clear_cache_every_nbr_calc, rel.memory_threshold_inGB = 10 ** 6, 1e6
            for q in rng.sample(['gammadown3', 'gammadet', 'alpha', 'Kdown3', 'betaup3', 'Ktrace'], 3):
                rel[q]
            rel.clear_cache_every_nbr_calc, rel.memory_threshold_inGB = keep
        rel.freeze_data()
        if rng.random() < 0.3:
            # a user-set importance on a COMPUTED quantity (never on a frozen input: that would un-freeze it legitimately)
            rel.var_importance[rng.choice([q for q in cheap if q not in inputs])] = rng.choice([0.0, 5.0])
        ids = {k: id(rel.data[k]) for k in inputs}
        hist = []
        for step in range(length):
            k = rng.choice(cheap) if (step > 2 or rng.random() < 0.5) else 'user_scalar_field'
            hist.append(k)
            try:
                v = rel[k]
            except Exception as e:
                return True, (f'history {hist} with clear_cache_every_nbr_calc={every}, memory_threshold_inGB={thr}: '
                              f'request raised {type(e).__name__}: {e}')
            extra = set(rel.last_accessed) - set(rel.data)
            if extra:
                return True, f'history {hist} (every={every}, thr={thr}): age table has keys not in the cache: {sorted(extra)}'
            gone = [q for q in inputs if q not in rel.data or id(rel.data[q]) != ids[q]]
            if gone:
                return True, f'history {hist} (every={every}, thr={thr}): frozen inputs evicted or replaced: {gone}'
            if k not in rel.data and k not in inputs:
                pass
    return False, f'{nhist} random histories x {length} requests on the real AurelCore: no invariant of C03 broken'
