def getitem_obligations(R):
    pass
